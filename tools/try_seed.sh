#!/bin/bash
# usage: tools/try_seed.sh <patch.diff> <check args...>   -- applies a seeded change to /repo, runs the check, reverts
set -u
patch=$1; shift
cd /repo && git apply "$patch" || { echo "PATCH DOES NOT APPLY"; exit 9; }
cd /verif && ./check "$@" 2>&1 | grep -E "^(VIOLATION|SUMMARY|HARNESS-ERROR|INCOMPLETE|KNOWN)" | cut -c1-400
rc=${PIPESTATUS[0]}
cd /repo && git checkout -- . && git status --short | head -3
echo "exit=$rc"
