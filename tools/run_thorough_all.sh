#!/bin/bash
# runs the thorough tier of every claimed property, one after the other (used with `vp run --with-repo`)
export PYTHONPATH=${VP_RUN_REPO:-/repo}
export VERIF_WORKERS=${VERIF_WORKERS:-10}
for p in "$@"; do
  echo "=== $p $(date)"
  /usr/bin/time -f "$p wall=%es" ./check $p --tier thorough 2>&1 | grep -E "^(DISCHARGED|INCOMPLETE|REFUTED|VIOLATION|HARNESS-ERROR|SUMMARY|KNOWN)|wall=" | cut -c1-260
done
