#!/usr/bin/env python3
"""runs the repo's pinned test suite (guard off) and compares with /root/.vp/BASELINE.json stable_pass"""
import json, subprocess, sys, os, xml.etree.ElementTree as ET
out = sys.argv[1] if len(sys.argv) > 1 else "/tmp/baseline.junit.xml"
env = dict(os.environ); env.pop("SYNE_TUNE_VERIF", None)
extra = sys.argv[2:]
subprocess.run(["/venv/bin/python", "-m", "pytest", "-ra", "-q", "-p", "no:cacheprovider", "--timeout=900",
                "--continue-on-collection-errors", "--junitxml=" + out] + extra, cwd="/repo", env=env,
               stdout=subprocess.DEVNULL, stderr=subprocess.DEVNULL)
base = json.load(open("/root/.vp/BASELINE.json"))
passed = set()
for tc in ET.parse(out).getroot().iter("testcase"):
    if not any(ch.tag in ("failure", "error", "skipped") for ch in tc):
        passed.add("%s::%s" % (tc.get("classname"), tc.get("name")))
missing = [t for t in base["stable_pass"] if t not in passed]
print("stable_pass:", len(base["stable_pass"]), "passed now:", len(passed), "missing:", len(missing))
for m in missing[:30]:
    print("  MISSING", m)
sys.exit(1 if missing else 0)
