#!/usr/bin/env python3
import json, os, sys
sys.path.insert(0, os.path.join(os.path.dirname(__file__), ".."))
from props.meta import META, NA
props = [json.loads(l)["id"] for l in open(os.path.join(os.path.dirname(__file__), "..", "properties.jsonl"))]
checks = []
for pid in props:
    if pid not in META:
        continue
    m = META[pid]
    checks.append(dict(
        property_id=pid,
        quick_cmd="./check %s --tier quick" % pid,
        thorough_cmd="./check %s --tier thorough" % pid,
        evidence_file="evidence/%s.json" % pid,
        replay_cmd_template="./check %s --replay {path}" % pid,
        engine="symx",
        level_claimed=dict(category=m["category"], text=m["text"], design_ref=m["design_ref"]),
        level_note=m["note"],
        technique=m["technique"],
    ))
na = [dict(property_id=p, reason=NA.get(p, "no check built yet in this session (solver-based check planned, see DESIGN.md section 4)")) for p in props if p not in META]
man = dict(
    version=1,
    setup_cmd="./check --setup",
    hooks=dict(guard="SYNE_TUNE_VERIF", enable="no source hooks: all instrumentation is harness-side (monkey-patched module attributes, subclasses); checks set SYNE_TUNE_VERIF=1 for uniformity only",
               baseline_off_cmd="cd /repo && env -u SYNE_TUNE_VERIF /venv/bin/python -m pytest -ra -q -p no:cacheprovider --timeout=900 --continue-on-collection-errors",
               source_commits=[], add_only=True),
    engines=[dict(name="symx", path="symx/", serves_properties=[c["property_id"] for c in checks],
                  kind_free_text="path-exhaustive symbolic execution of the real Python code (CrossHair 0.0.110 tracer + z3 5.1), own driver with explicit symbolic inputs, replay of every model against the uninstrumented code; cvc5 string queries for C18 framing")],
    checks=checks,
    not_applicable=na,
    notes="exit codes: 0 held on everything explored, 1 replayed VIOLATION, 3 harness error (non-reproducing model, unreachable coverage goal, quick obligation not exhausted). Evidence lists per obligation: bounds, paths, solver queries/time, status discharged/incomplete.",
)
json.dump(man, open(os.path.join(os.path.dirname(__file__), "..", "MANIFEST.json"), "w"), indent=1)
print("checks:", [c["property_id"] for c in checks], "n/a:", [n["property_id"] for n in na])
