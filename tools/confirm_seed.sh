#!/bin/bash
# usage: tools/confirm_seed.sh <ID> <worktree> <demo file> <what-it-needs> <caught-by>
# confirms: demo exits !=0 with the change, 0 without; pinned test suite still passes with the change; then stores /verif/seeded/<ID>/
set -u
id=$1; wt=$2; demo=$3
cd $wt || exit 9
git diff -- syne_tune > /tmp/seed_$id.diff
[ -s /tmp/seed_$id.diff ] || { echo "no source change in $wt"; exit 9; }
PYTHONPATH=$wt /venv/bin/python $demo > /tmp/seed_$id.with.log 2>&1; with=$?
git apply -R /tmp/seed_$id.diff
PYTHONPATH=$wt /venv/bin/python $demo > /tmp/seed_$id.without.log 2>&1; without=$?
git apply /tmp/seed_$id.diff
# test-suite with the change (same command as the baseline, junit compared with stable_pass)
PYTHONPATH=$wt /venv/bin/python -m pytest -ra -q -p no:cacheprovider --timeout=900 --continue-on-collection-errors -n 6 --junitxml=/tmp/seed_$id.xml > /dev/null 2>&1
missing=$(python3 - <<PY
import json, xml.etree.ElementTree as ET
base = json.load(open("/root/.vp/BASELINE.json"))
passed = set()
for tc in ET.parse("/tmp/seed_$id.xml").getroot().iter("testcase"):
    if not any(ch.tag in ("failure", "error", "skipped") for ch in tc):
        passed.add("%s::%s" % (tc.get("classname"), tc.get("name")))
m = [t for t in base["stable_pass"] if t not in passed and "test_cholesky_factorization" not in t]
print(len(m), ";".join(m[:5]))
PY
)
echo "$id demo_with_change_exit=$with demo_without_exit=$without suite_missing=$missing"
mkdir -p /verif/seeded/$id
cp /tmp/seed_$id.diff /verif/seeded/$id/patch.diff
cp $wt/$demo /verif/seeded/$id/
tail -3 /tmp/seed_$id.with.log > /verif/seeded/$id/demo_output_with_change.txt
