import sys as _s; _s.modules["yahpo_gym"] = None; _s.modules["ConfigSpace"] = None
import sys, logging, random
from drv import *
from crosshair.core import NoTracing
import numpy as np
logging.disable(logging.CRITICAL)
import syne_tune.optimizer.baselines as BL
from syne_tune.config_space import uniform, randint, choice
from syne_tune.backend.trial_status import Trial
exec(open('p16.py').read().split("def mk():")[0].split("KIND = sys.argv[1]")[1])
KIND = sys.argv[1]
def mk():
    cs = {"x": uniform(0, 1), "n": randint(1, 5), "c": choice(["a", "b", "c"]), "epochs": 4}
    kw = dict(metric="m", mode="min", random_seed=7)
    mf = dict(resource_attr="r", max_resource_attr="epochs")
    with NoTracing():
        if KIND == "RandomSearch": return BL.RandomSearch(cs, **kw)
        if KIND == "GridSearch": return BL.GridSearch(cs, **kw)
        if KIND == "BO": return BL.BayesianOptimization(cs, **kw)
        if KIND == "ASHA": return BL.ASHA(cs, **kw, **mf, brackets=2)
        if KIND == "ASHApromo": return BL.ASHA(cs, **kw, **mf, type="promotion")
        if KIND == "PASHA": return BL.PASHA(cs, **kw, **mf)
        if KIND == "MOBSTER": return BL.MOBSTER(cs, **kw, **mf)
        if KIND == "SyncHyperband": return BL.SyncHyperband(cs, **kw, **mf)
        if KIND == "DEHB": return BL.DEHB(cs, **kw, **mf)
        if KIND == "REA": return BL.REA(cs, **kw, population_size=2, sample_size=2)
        if KIND == "SyncBOHB": return BL.SyncBOHB(cs, **kw, **mf)
        if KIND == "BOHB": return BL.BOHB(cs, **kw, **mf)
def run(sch, sym, stream, script):
    install(stream)
    out = []; trials = {}
    for (op, tid, r, v) in script:
        if op == "s":
            s = sch.suggest(len(trials))
            if s is None: out.append(None); continue
            if s.spawn_new_trial_id:
                t = Trial(len(trials), s.config, None); trials[t.trial_id] = t; sch.on_trial_add(t)
            out.append((s.spawn_new_trial_id, s.checkpoint_trial_id, s.config))
        elif op == "r":
            if tid in trials:
                d = sch.on_trial_result(trials[tid], {"m": v, "r": r}); out.append(d)
                if d == "PAUSE": sch.on_trial_remove(trials[tid])
        elif op == "c":
            if tid in trials: sch.on_trial_complete(trials[tid], {"m": v, "r": r})
    return out
def harness(sym):
    Stream.calls = 0
    vs = [0.3, 0.1, 0.7, 0.2, 0.5]
    script = [("s",0,0,0), ("s",0,0,0), ("r",0,1,vs[0]), ("r",1,1,vs[1]), ("s",0,0,0), ("r",2,1,vs[2]), ("r",0,2,vs[3]), ("c",0,2,vs[3]), ("s",0,0,0), ("s",0,0,0)]
    try:
        a = run(mk(), sym, Stream(sym, "a"), script)
        b = run(mk(), sym, Stream(sym, "b"), script)
    finally:
        for n, f in ORIG.items(): setattr(np.random, n, f)
        random.random, random.uniform = ORIG_R
    assert Stream.calls == 0, f"global RNG used {Stream.calls} times"
    assert a == b
st = explore(harness, timeout=60, max_iters=3)
print(KIND, str(st)[:400])
