import logging, os, tempfile
os.environ["SYNETUNE_FOLDER"] = tempfile.mkdtemp(prefix="st_")
logging.disable(logging.CRITICAL)
from pathlib import Path
from syne_tune import Tuner, StoppingCriterion
from syne_tune.backend.trial_backend import TrialBackend
from syne_tune.backend.trial_status import Status
from syne_tune.optimizer.schedulers.pbt import PopulationBasedTraining
from syne_tune.config_space import uniform
from syne_tune.constants import ST_WORKER_TIMESTAMP
import syne_tune.tuning_status as _ts
_ts.TuningStatus.__str__ = lambda self: ''
class MemBackend(TrialBackend):
    """in-memory backend; script[poll] = list of (trial, resource, metric) that become visible at that poll"""
    def __init__(self, script):
        super().__init__(delete_checkpoints=True); self.script = script; self.poll = 0; self.st = {}; self.ckpt = set(); self.log = []; self.clock = 0
    def _schedule(self, trial_id, config): self.st[trial_id] = Status.in_progress; self.ckpt.add(trial_id)
    def _pause_trial(self, trial_id, result): self.st[trial_id] = Status.paused
    def _stop_trial(self, trial_id, result): self.st[trial_id] = Status.stopped
    def _resume_trial(self, trial_id): pass
    def copy_checkpoint(self, src_trial_id, tgt_trial_id):
        self.log.append(("copy", src_trial_id, tgt_trial_id, src_trial_id in self.ckpt))
    def delete_checkpoint(self, trial_id):
        if trial_id in self.ckpt: self.ckpt.discard(trial_id); self.log.append(("delete", trial_id))
    def entrypoint_path(self): return Path("dummy.py")
    def busy_trial_ids(self): return [(t, s) for t, s in self.st.items() if s == Status.in_progress]
    def stdout(self, t): return []
    def stderr(self, t): return []
    def _all_trial_results(self, trial_ids):
        new = self.script[self.poll] if self.poll < len(self.script) else []
        self.poll += 1
        for (t, r, m) in new:
            if t in trial_ids and self.st[t] == Status.in_progress:
                self.clock += 1
                self._trial_dict[t].metrics.append({"m": m, "r": r, ST_WORKER_TIMESTAMP: self.clock})
        out = []
        for t in trial_ids:
            tr = self._trial_dict[t]; tr.status = self.st[t]; out.append(tr)
        return out
cs = {"x": uniform(0, 1)}
sch = PopulationBasedTraining(cs, metric="m", mode="min", resource_attr="r", max_t=2, population_size=2, perturbation_interval=1, quantile_fraction=0.5, random_seed=0)
# poll 1: trial 1 reports r=1 (good). poll 2: trial 0 reports r=1 (bad -> clone trial 1), then trial 1 reports r=2 == max_t -> STOP
script = [[], [(1, 1, 0.1)], [(0, 1, 0.9), (1, 2, 0.05)], [], [], []]
be = MemBackend(script)
tuner = Tuner(trial_backend=be, scheduler=sch, stop_criterion=StoppingCriterion(max_num_trials_started=2), n_workers=2, sleep_time=0, save_tuner=False, callbacks=[], tuner_name="f7", suffix_tuner_name=False)
try:
    tuner.run()
except Exception as e:
    print("run raised", type(e).__name__, e)
print(be.log)
