import sys, logging
from drv import *
import shim
from crosshair.core import NoTracing
logging.disable(logging.CRITICAL)
from syne_tune.optimizer.schedulers.hyperband import HyperbandScheduler
import syne_tune.optimizer.schedulers.searchers.model_based_searcher as MBS
MBS.np = shim.NumpyShim()
from syne_tune.config_space import uniform
from syne_tune.backend.trial_status import Trial
N = int(sys.argv[1]); TYPE = sys.argv[2]; SD = sys.argv[3]
def harness(sym):
    cs = {"x": uniform(0, 1), "epochs": 4}
    with NoTracing():
        sch = HyperbandScheduler(cs, searcher="bayesopt", metric="m", mode="min", resource_attr="r", max_resource_attr="epochs", type=TYPE, grace_period=1, reduction_factor=2, random_seed=1, searcher_data=SD, search_options={"debug_log": False})
    trials = {}; last_r = {}; running = None
    reported = {}
    for i in range(N):
        s = sch.suggest(len(trials))
        if s.spawn_new_trial_id:
            tid = len(trials); t = Trial(trial_id=tid, config=s.config, creation_time=None); trials[tid] = t
            sch.on_trial_add(t); r = 1
        else:
            tid = s.checkpoint_trial_id; t = trials[tid]
            if s.config is not None: t.config = s.config
            r = last_r[tid] + 1
        while True:
            v = sym.real(f"m_{tid}_{r}", -100, 100)
            d = sch.on_trial_result(t, {"m": v, "r": r})
            reported[(str(tid), r)] = v
            if d != "CONTINUE":
                if d == "PAUSE": sch.on_trial_remove(t)
                break
            r += 1
        last_r[tid] = r
        # C14: nothing running now => no pending evaluations; each observation equals reported value
        st = sch.searcher.state_transformer.state
        assert len(st.pending_evaluations) == 0, [(p.trial_id, p.resource) for p in st.pending_evaluations]
        for ev in st.trials_evaluations:
            for rs, val in ev.metrics["target"].items():
                assert val == reported[(ev.trial_id, int(rs))]
st = explore(harness, timeout=int(sys.argv[4]))
print(st)
