import sys, logging
from drv import *
from crosshair.core import NoTracing
from syne_tune.optimizer.schedulers.hyperband import HyperbandScheduler
from syne_tune.config_space import uniform, randint
from syne_tune.backend.trial_status import Trial
import datetime
logging.disable(logging.CRITICAL)
N = int(sys.argv[1]); TYPE = sys.argv[2]

def mk():
    cs = {"x": uniform(0, 1), "epochs": 9}
    return HyperbandScheduler(cs, searcher="random", metric="m", mode="min", resource_attr="r", max_resource_attr="epochs", type=TYPE, grace_period=1, reduction_factor=3, random_seed=1, brackets=1)

def harness(sym):
    with NoTracing():
        pass
    sch = mk()
    # sequential: each trial runs until stopped/paused
    trials = {}
    log = []
    for i in range(N):
        s = sch.suggest(len(trials))
        if s.spawn_new_trial_id:
            tid = len(trials)
            t = Trial(trial_id=tid, config=s.config, creation_time=None)
            trials[tid] = t
            sch.on_trial_add(t)
            start = 1
        else:
            tid = s.checkpoint_trial_id
            t = trials[tid]
            if s.config is not None: t.config = s.config
            start = None
        # run trial: report r = 1.. until decision != continue
        r = 1 if start else last_r[tid] + 1
        while True:
            v = sym.real(f"m_{i}_{tid}_{r}", -100, 100)
            d = sch.on_trial_result(t, {"m": v, "r": r})
            log.append((tid, r, d))
            if d != "CONTINUE":
                sch.on_trial_remove(t) if d == "PAUSE" else None
                break
            r += 1
            if r > 9: break
        last_r[tid] = r
last_r = {}
import time
t0=time.time(); 
st = explore(harness, timeout=300)
print(st)
