import z3, time
TAG = "[tune-metric]: "
S = z3.String
pre, body, suf = S("pre"), S("body"), S("suf")
payload = z3.Concat(z3.StringVal("{"), body, z3.StringVal("}"))
line = z3.Concat(pre, z3.StringVal(TAG), payload, suf)
nl = z3.StringVal("\n")
def base(s, allow_suffix):
    s.add(z3.Not(z3.Contains(pre, nl)), z3.Not(z3.Contains(body, nl)), z3.Not(z3.Contains(suf, nl)))
    s.add(z3.Not(z3.Contains(pre, z3.StringVal("[tune-metric]"))))
    s.add(z3.Not(z3.Contains(suf, z3.StringVal("[tune-metric]"))))
    if not allow_suffix: s.add(suf == z3.StringVal(""))
    s.add(z3.Length(pre) <= 40, z3.Length(body) <= 40, z3.Length(suf) <= 40)
# python semantics of findall(r"\[tune-metric\]: (\{.*\})", line) on a single line:
# leftmost p with line[p:].startswith(TAG+"{") and a "}" after; capture = line[p+len(TAG) : last "}" +1]
needle = z3.StringVal(TAG + "{")
p = z3.IndexOf(line, needle, 0)
last = z3.LastIndexOf(line, z3.StringVal("}"))
cap = z3.SubString(line, p + len(TAG), last + 1 - (p + len(TAG)))
for allow in (False, True):
    s = z3.Solver(); base(s, allow)
    s.add(cap != payload)
    s.set("timeout", 120000)
    t = time.time(); r = s.check(); print("suffix" if allow else "nosuffix", r, round(time.time()-t, 2))
    if str(r) == "sat":
        m = s.model(); print({k: m[k] for k in (pre, body, suf)})
s = z3.Solver(); base(s, False); s.add(cap != payload); s.check(); m = s.model()
print("p", m.eval(p), "last", m.eval(last), "cap", m.eval(cap), "payload", m.eval(payload), "line", m.eval(line))
# variant without LastIndexOf: no suffix => last = len-1
s = z3.Solver(); base(s, False)
cap2 = z3.SubString(line, p + len(TAG), z3.Length(line) - (p + len(TAG)))
s.add(cap2 != payload); s.set("timeout", 120000)
t = time.time(); print("nosuffix/len", s.check(), round(time.time()-t, 2))
