import sys
from drv import *
from syne_tune.tuning_status import MetricsStatistics, TuningStatus, print_best_metric_found
from syne_tune.backend.trial_status import Trial, Status
import syne_tune.tuning_status as TS
TS.TuningStatus.__str__ = lambda self: ""
import builtins
N = int(sys.argv[1]); MODE = sys.argv[2]
def harness(sym):
    ts = TuningStatus(metric_names=["m"])
    vals = []
    for i in range(N):
        kind = sym.int(f"kind{i}", 0, 1)   # 0 number, 1 NaN
        tid = sym.int(f"t{i}", 0, 1)
        v = float("nan") if kind == 1 else sym.real(f"v{i}", -10, 10)
        tid_c = 0 if tid == 0 else 1
        tr = Trial(tid_c, {"x": 1}, None)
        ts.update({tid_c: (tr, Status.in_progress)}, [(tid_c, {"m": v})])
        vals.append((tid_c, kind, v))
    nums = [(t, v) for (t, k, v) in vals if k == 0]
    st = ts.overall_metric_statistics
    assert st.count == N
    if nums:
        for (t, v) in nums:
            assert st.min_metrics["m"] <= v <= st.max_metrics["m"]
        assert any(st.min_metrics["m"] == v for (t, v) in nums)
        assert any(st.max_metrics["m"] == v for (t, v) in nums)
    res = print_best_metric_found(ts, ["m"], MODE)
    if nums:
        bt, bv = res
        for (t, v) in nums:
            assert (bv <= v) if MODE == "min" else (bv >= v)
        assert any(t == bt and v == bv for (t, v) in nums)
st = explore(harness, timeout=int(sys.argv[3]))
print(st)
