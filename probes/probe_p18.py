import sys
from drv import *
import shim, shim2
import syne_tune.optimizer.schedulers.searchers.utils.hp_ranges_impl as H
import syne_tune.optimizer.schedulers.searchers.utils.scaling as S
H.np = shim.NumpyShim(); S.np = H.np
LO = float(sys.argv[1]); HI = float(sys.argv[2])
def harness(sym):
    r = H.HyperparameterRangeContinuous("x", LO, HI, S.LogScaling())
    hp = sym.real("hp", LO, HI)
    enc = r.to_ndarray(hp)
    v = enc.item()
    assert 0.0 <= v <= 1.0
    dec = r.from_ndarray(enc)
    assert LO <= dec <= HI
    assert abs(dec - hp) <= 1e-7 * abs(hp)
    u = sym.real("u", 0, 1)
    d2 = r.from_ndarray(shim.SymArr([u]))
    assert LO <= d2 <= HI
st = explore(harness, timeout=int(sys.argv[3]))
print(st)
