import ast, inspect, textwrap
import syne_tune.tuner as T
src = textwrap.dedent(inspect.getsource(T.Tuner.run))
fn = ast.parse(src).body[0]
# locate: try -> body -> while
tr = [n for n in fn.body if isinstance(n, ast.Try)][0]
wh = [n for n in tr.body if isinstance(n, ast.While)][0]
pre = tr.body[:tr.body.index(wh)]
# free variables of the loop body that are run()-locals
names_assigned = set()
for n in ast.walk(ast.Module(body=pre, type_ignores=[])):
    if isinstance(n, ast.Name) and isinstance(n.ctx, ast.Store): names_assigned.add(n.id)
print("locals before loop:", sorted(names_assigned))
print("loop test:", ast.unparse(wh.test))
step_src = "def _step(self, done_trials_statuses, running_trials_ids, config_space_exhausted, stop_condition_reached):\n" \
           "    _broke = True\n    for _once in (0,):\n" + textwrap.indent("\n".join(ast.unparse(s) for s in wh.body), "        ") + \
           "\n        _broke = False\n    return running_trials_ids, config_space_exhausted, stop_condition_reached, _broke\n"
ns = {}
exec(compile(step_src, "<lifted Tuner.run loop body>", "exec"), T.__dict__, ns)
print(step_src[:600]); print("... compiled OK:", ns["_step"])
