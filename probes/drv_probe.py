"""probe driver: exhaustive path exploration using crosshair internals"""
import sys, time, traceback
from crosshair.core import Patched, NoTracing, ResumedTracing, ExceptionFilter, realize, deep_realize
from crosshair.core_and_libs import standalone_statespace
from crosshair.statespace import StateSpace, StateSpaceContext, RootNode, CallAnalysis, VerificationStatus
from crosshair.util import IgnoreAttempt, UnexploredPath, NotDeterministic
from crosshair.tracers import COMPOSITE_TRACER
from crosshair.libimpl.builtinslib import ModelingDirector, SymbolicInt, SymbolicBool, RealBasedSymbolicFloat, PreciseIeeeSymbolicFloat
from crosshair.statespace import context_statespace
import z3
from time import process_time

class Sym:
    """factory for symbolic inputs inside a harness"""
    def __init__(self):
        self.vars = {}
    def int(self, name, lo, hi):
        with NoTracing():
            sp = context_statespace()
            v = SymbolicInt(name)
            sp.add(v.var >= lo); sp.add(v.var <= hi)
            self.vars[name] = v
            return v
    def real(self, name, lo=None, hi=None):
        with NoTracing():
            sp = context_statespace()
            v = RealBasedSymbolicFloat(name)
            if lo is not None: sp.add(v.var >= lo)
            if hi is not None: sp.add(v.var <= hi)
            self.vars[name] = v
            return v
    def fp(self, name):
        with NoTracing():
            v = PreciseIeeeSymbolicFloat(name)
            self.vars[name] = v
            return v
    def bool(self, name):
        with NoTracing():
            v = SymbolicBool(name)
            self.vars[name] = v
            return v
    def assume(self, cond):
        if not cond:
            raise IgnoreAttempt("assume")

class Violation(Exception):
    pass

def explore(harness, max_iters=100000, timeout=60, per_path_timeout=30.0, floatmode="real"):
    import os; per_path_timeout = float(os.environ.get("PPT", per_path_timeout))
    root = RootNode()
    t0 = time.time()
    stats = dict(paths=0, confirmed=0, ignored=0, unknown=0, exhausted=False, cex=None)
    for i in range(max_iters):
        if time.time() - t0 > timeout:
            break
        start = process_time()
        space = StateSpace(execution_deadline=start + per_path_timeout, model_check_timeout=per_path_timeout/2, search_root=root)
        sym = Sym()
        status = None
        with Patched(), COMPOSITE_TRACER, NoTracing(), StateSpaceContext(space):
            space.extra(ModelingDirector).global_representations[float] = RealBasedSymbolicFloat if floatmode=='real' else PreciseIeeeSymbolicFloat
            try:
                with ExceptionFilter() as ef, ResumedTracing():
                    harness(sym)
                if ef.ignore:
                    status = None; stats['ignored'] += 1
                elif ef.user_exc is not None:
                    exc, stack = ef.user_exc
                    if isinstance(exc, NotDeterministic): raise exc
                    # counterexample: realize inputs
                    model = {k: realize(v) for k, v in sym.vars.items()}
                    stats['cex'] = (repr(exc), model, ''.join(stack.format()[-3:]) if stack else '')
                    status = VerificationStatus.REFUTED
                else:
                    status = VerificationStatus.CONFIRMED; stats['confirmed'] += 1
            except IgnoreAttempt:
                status = None; stats['ignored'] += 1
            except UnexploredPath as e:
                status = VerificationStatus.UNKNOWN; stats['unknown'] += 1
            stats['paths'] += 1
            _a, exhausted = space.bubble_status(CallAnalysis(status))
        if stats['cex'] is not None:
            break
        if exhausted:
            stats['exhausted'] = True
            break
    stats['wall'] = time.time() - t0
    return stats

# ---- stub: formatting of symbolic numbers gives a placeholder (no realization) ----
import crosshair.opcode_intercept as _oi
from crosshair.libimpl.builtinslib import SymbolicNumberAble
def _issym(v):
    with NoTracing():
        return SymbolicNumberAble in type(v).__mro__
def _fmt(self, fmt):
    if _issym(self.value):
        self.formatted = "<sym>"
    else:
        self.formatted = format(self.value, fmt)
    return ""
def _str(self):
    if _issym(self.value):
        self.formatted = "<sym>"
    else:
        self.formatted = str(self.value)
    return ""
_oi.FormatStashingValue.__format__ = _fmt
_oi.FormatStashingValue.__str__ = _str
