import sys, logging
from drv import *
from crosshair.core import NoTracing
logging.disable(logging.CRITICAL)
from syne_tune.optimizer.schedulers.hyperband import HyperbandScheduler
from syne_tune.config_space import uniform
from syne_tune.backend.trial_status import Trial
TYPE = sys.argv[1]; W = int(sys.argv[2]); T = int(sys.argv[3]); E = int(sys.argv[4]); MAXT = int(sys.argv[5])
def harness(sym):
    cs = {"x": uniform(0, 1), "epochs": MAXT}
    with NoTracing():
        sch = HyperbandScheduler(cs, searcher="random", metric="m", mode="min", resource_attr="r", max_resource_attr="epochs", type=TYPE, grace_period=1, reduction_factor=2, random_seed=1)
    trials = {}; level = {}; running = []; target = {}
    nres = 0
    for step in range(E):
        can_suggest = len(running) < W and (len(trials) < T or True)
        opts = len(running) + (1 if can_suggest else 0)
        if opts == 0: break
        c = sym.int(f"c{step}", 0, opts - 1)
        if c == len(running):   # suggest
            s = sch.suggest(len(trials))
            if s.spawn_new_trial_id:
                if len(trials) >= T: break
                tid = len(trials); t = Trial(trial_id=tid, config=s.config, creation_time=None); trials[tid] = t
                sch.on_trial_add(t); level[tid] = 0
            else:
                tid = s.checkpoint_trial_id; t = trials[tid]
                assert tid not in running
                if s.config is not None: t.config = s.config
            target[tid] = t.config["epochs"]
            running.append(tid)
        else:
            # pick running[c] via comparisons (symbolic index -> concrete)
            tid = None
            for i, cand in enumerate(running):
                if c == i: tid = cand
            level[tid] += 1
            v = sym.real(f"m_{tid}_{level[tid]}", -100, 100)
            d = sch.on_trial_result(trials[tid], {"m": v, "r": level[tid]})
            nres += 1
            if d != "CONTINUE":
                if d == "PAUSE":
                    sch.on_trial_remove(trials[tid])
                    assert level[tid] == target[tid]     # pauses exactly at its milestone
                running.remove(tid)
            else:
                assert level[tid] < target[tid]
st = explore(harness, timeout=int(sys.argv[6]))
print(st)
