import sys, logging
from drv import *
from crosshair.core import NoTracing
logging.disable(logging.CRITICAL)
from syne_tune.optimizer.schedulers.hyperband import HyperbandScheduler
from syne_tune.config_space import uniform
from syne_tune.backend.trial_status import Trial
MODE = sys.argv[1]; T = int(sys.argv[2]); E = int(sys.argv[3]); W = 2; MAXT = 4; CKPT = sys.argv[5] == "1"
LEVELS = [1, 2]  # grace 1, rf 2, max_t 4
TOL = 1e-7
def quantile_ref(vals, q):
    s = sorted(vals); n = len(s); h = (n - 1) * q; lo = int(h); g = h - lo
    return s[lo] + g * (s[min(lo + 1, n - 1)] - s[lo])
def better(a, b): return a < b if MODE == "min" else a > b
def harness(sym):
    cs = {"x": uniform(0, 1), "epochs": MAXT}
    with NoTracing():
        sch = HyperbandScheduler(cs, searcher="random", metric="m", mode=MODE, resource_attr="r", max_resource_attr="epochs", type="promotion", grace_period=1, reduction_factor=2, random_seed=1)
    trials = {}; level = {}; running = []; target = {}; resume_from = {}
    rung = {l: {} for l in LEVELS}   # level -> {trial: [metric, promoted]}
    for step in range(E):
        nopt = len(running) + (1 if len(running) < W else 0)
        if nopt == 0: break
        c = sym.int(f"c{step}", 0, nopt - 1)
        cc = None
        for i in range(nopt):
            if c == i: cc = i
        if cc == len(running):
            # reference: which promotions are allowed / required
            must = None; may = set(); decided = False
            for j in (1, 0):
                l = LEVELS[j]; ent = rung[l]
                if decided: break
                if len(ent) >= 2:
                    q = l / (LEVELS[j + 1] if j + 1 < len(LEVELS) else MAXT)
                    cut = quantile_ref([e[0] for e in ent.values()], q if MODE == "min" else 1 - q)
                    unp = [(t, e[0]) for t, e in ent.items() if not e[1]]
                    if unp:
                        bestv = unp[0][1]
                        for t, v in unp:
                            if better(v, bestv): bestv = v
                        bests = [t for t, v in unp if v == bestv]
                        clearly_ok = better(bestv, cut - TOL if MODE == "min" else cut + TOL) or False
                        clearly_bad = better(cut + TOL if MODE == "min" else cut - TOL, bestv)
                        if not clearly_bad:
                            may = set(bests); lvl_may = l
                            if clearly_ok: must = set(bests)
                            decided = True if clearly_ok else False
                            if not clearly_ok: break   # ambiguous: stop reasoning, accept either
            s = sch.suggest(len(trials))
            if s.spawn_new_trial_id:
                assert must is None, ("should have promoted", must)
                if len(trials) >= T: break
                tid = len(trials); trials[tid] = Trial(tid, s.config, None); sch.on_trial_add(trials[tid]); level[tid] = 0
                assert s.config["epochs"] == LEVELS[0]
                resume_from[tid] = 0
            else:
                tid = s.checkpoint_trial_id
                assert tid in may, ("promoted non-eligible", tid, may)
                assert tid not in running
                l = level[tid]; assert l == lvl_may and not rung[l][tid][1]
                rung[l][tid][1] = True
                nxt = LEVELS[LEVELS.index(l) + 1] if LEVELS.index(l) + 1 < len(LEVELS) else MAXT
                assert s.config["epochs"] == nxt
                trials[tid].config = s.config
                resume_from[tid] = l
                if not CKPT: level[tid] = 0
            target[tid] = trials[tid].config["epochs"]
            running.append(tid)
        else:
            tid = running[cc]; level[tid] += 1; r = level[tid]
            v = sym.real(f"m_{tid}_{r}_{step}", -100, 100)
            d = sch.on_trial_result(trials[tid], {"m": v, "r": r})
            if r == target[tid]:
                assert d == ("STOP" if r >= MAXT else "PAUSE"), (tid, r, d)
                if r in rung: rung[r][tid] = [v, False]
                if d == "PAUSE": sch.on_trial_remove(trials[tid])
                running.remove(tid)
            else:
                assert d == "CONTINUE" and r < target[tid]
st = explore(harness, timeout=int(sys.argv[4]))
print(str(st)[:900])
