"""C01/C12 monitor pre-validation: real Tuner.run + NDS + scripted backend with failures"""
import sys, logging, os, tempfile
os.environ["SYNETUNE_FOLDER"] = tempfile.mkdtemp(prefix="st_")
from drv import *
logging.disable(logging.CRITICAL)
import syne_tune.tuning_status as _ts
_ts.TuningStatus.__str__ = lambda self: ''
from syne_tune import Tuner, StoppingCriterion
from syne_tune.backend.trial_backend import TrialBackend
from syne_tune.backend.trial_status import Status
from syne_tune.optimizer.scheduler import TrialScheduler, TrialSuggestion, SchedulerDecision
from syne_tune.tuner_callback import TunerCallback
from syne_tune.constants import ST_WORKER_TIMESTAMP
from pathlib import Path
EV = []; F9 = []
class SB(TrialBackend):
    def __init__(self, sym, R, K, W): super().__init__(); self.sym = sym; self.R = R; self.K = K; self.W = W; self.wst = {}; self.nr = {}; self.clock = 0; self.poll = 0; self.stut = 0
    def _busy(self): return [t for t, s in self.wst.items() if s == Status.in_progress]
    def _schedule(self, trial_id, config):
        self.wst[trial_id] = Status.in_progress; self.nr.setdefault(trial_id, 1)
        assert len(self._busy()) <= self.W, "worker budget"
    def _resume_trial(self, trial_id):
        EV.append(("b_resume", trial_id)); assert self.wst[trial_id] == Status.paused
    def _pause_trial(self, trial_id, result): EV.append(("b_pause", trial_id)); self.wst[trial_id] = Status.paused
    def _stop_trial(self, trial_id, result): EV.append(("b_stop", trial_id)); self.wst[trial_id] = Status.stopped
    def start_trial(self, config, checkpoint_trial_id=None):
        tr = super().start_trial(config, checkpoint_trial_id); EV.append(("b_start", tr.trial_id)); return tr
    def copy_checkpoint(self, a, b): pass
    def delete_checkpoint(self, t): pass
    def entrypoint_path(self): return Path("d.py")
    def busy_trial_ids(self): return [(t, Status.in_progress) for t in self._busy()]
    def stdout(self, t): return []
    def stderr(self, t): return []
    def _all_trial_results(self, ids):
        self.poll += 1; out = []; any_new = False
        for t in ids:
            trr = self._trial_dict[t]
            if self.wst[t] == Status.in_progress:
                lo = 0 if self.stut < 1 else 1
                k = self.sym.int(f"k_p{self.poll}_t{t}", lo, self.K)
                for _ in range(self.K):
                    if k > 0 and self.nr[t] <= self.R:
                        self.clock += 1; trr.metrics.append({"m": 1.0, "r": self.nr[t], ST_WORKER_TIMESTAMP: self.clock}); self.nr[t] += 1; k = k - 1; any_new = True
                if self.nr[t] > self.R:
                    e = self.sym.int(f"end_p{self.poll}_t{t}", 1, 2)
                    self.wst[t] = Status.completed if e == 1 else Status.failed; any_new = True
            trr.status = self.wst[t]; out.append(trr)
        self.stut = 0 if any_new else self.stut + 1
        return out
class NDS(TrialScheduler):
    def __init__(self, sym, T): super().__init__({"x": 1}); self.sym = sym; self.paused = []; self.n = 0; self.T = T
    def _suggest(self, trial_id):
        self.n += 1
        if self.paused and self.sym.bool(f"resume_{self.n}"):
            t = self.paused.pop(0); EV.append(("s_resume", t)); return TrialSuggestion.resume_suggestion(t)
        if trial_id >= self.T: return None
        EV.append(("s_start", trial_id)); return TrialSuggestion.start_suggestion({"x": 1})
    def on_trial_add(self, trial): EV.append(("add", trial.trial_id))
    def on_trial_result(self, trial, result):
        self.n += 1; d = self.sym.int(f"dec_{self.n}", 0, 2)
        dec = [SchedulerDecision.CONTINUE, SchedulerDecision.PAUSE, SchedulerDecision.STOP][d]
        EV.append(("result", trial.trial_id, result["r"], dec))
        if dec == SchedulerDecision.PAUSE: self.paused.append(trial.trial_id)
        return dec
    def on_trial_remove(self, trial): EV.append(("remove", trial.trial_id))
    def on_trial_complete(self, trial, result): EV.append(("complete", trial.trial_id))
    def on_trial_error(self, trial): EV.append(("error", trial.trial_id))
    def metric_names(self): return ["m"]
    def metric_mode(self): return "min"
class Mon(TunerCallback):
    def __init__(self): self.iters = 0
    def on_loop_end(self): self.iters += 1; EV.append(("loop_end",))
W = int(sys.argv[1]); T = int(sys.argv[2]); R = int(sys.argv[3]); K = int(sys.argv[4]); MAXF = int(sys.argv[6])
def harness(sym):
    del EV[:]
    sch = NDS(sym, T); be = SB(sym, R, K, W); mon = Mon()
    nfin = sym.int("max_finished", 0, T)
    crit = StoppingCriterion(max_num_trials_finished=nfin)
    tuner = Tuner(trial_backend=be, scheduler=sch, stop_criterion=crit, n_workers=W, sleep_time=0, callbacks=[mon], save_tuner=False, tuner_name="c12", suffix_tuner_name=False, results_update_interval=1e9, print_update_interval=1e9, max_failures=MAXF)
    err = None
    try:
        tuner.run()
    except ValueError as e:
        err = e
    # ---- C01 automaton per trial
    state = {}; added = set(); nres = {}
    for e in EV:
        k = e[0]
        if k == "b_start":
            assert e[1] == len(state) and e[1] not in state; state[e[1]] = "run"
        elif k == "add": assert state.get(e[1]) == "run" and e[1] not in added; added.add(e[1])
        elif k == "result":
            t = e[1]; assert state[t] == "run" and t in added
            assert e[2] == nres.get(t, 0) + 1; nres[t] = e[2]
            if e[3] == "PAUSE": state[t] = "pausing"
            if e[3] == "STOP": state[t] = "stopping"
        elif k == "remove": assert state[e[1]] in ("pausing", "stopping"); state[e[1]] = "paused" if state[e[1]] == "pausing" else "stopped"
        elif k == "complete": assert state[e[1]] == "run"; state[e[1]] = "completed"
        elif k == "error":
            if state[e[1]] in ("paused", "stopped"): F9.append(e[1])     # remove followed by error (candidate F9)
            else: assert state[e[1]] == "run"
            state[e[1]] = "failed"
        elif k == "b_resume": assert state[e[1]] in ("paused", "failed"); state[e[1]] = "run"
    # ---- C12 after return
    assert not [t for t, s in be.wst.items() if s == Status.in_progress], "left running"
    ts = tuner.tuning_status
    nfailed = sum(1 for s in be.wst.values() if s == Status.failed and True)
    assert ts.num_trials_started == len(be.trial_ids)
    assert ts.num_trials_running == 0
    if err is not None:
        assert ts.num_trials_failed > MAXF
        assert "failed" in str(err)
    else:
        assert ts.num_trials_failed <= MAXF
st = explore(harness, timeout=int(sys.argv[5]))
print(str(st)[:1500])
