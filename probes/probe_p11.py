import sys, logging, os, tempfile
import sys as _s; _s.modules["yahpo_gym"] = None
os.environ["SYNETUNE_FOLDER"] = tempfile.mkdtemp(prefix="st_")
from drv import *
logging.disable(logging.CRITICAL)
from syne_tune.blackbox_repository.simulated_tabular_backend import UserBlackboxBackend
from syne_tune.blackbox_repository.blackbox import Blackbox
from syne_tune.backend.simulator_backend.simulator_backend import SimulatorConfig
import syne_tune.backend.simulator_backend.time_keeper as TK
from syne_tune.config_space import choice
from syne_tune.constants import ST_TUNER_TIME

import datetime as _dt
import syne_tune.backend.simulator_backend.simulator_backend as SB
class _FDT:
    @staticmethod
    def now(): return _dt.datetime(2020, 1, 1)
class _FTD:
    def __init__(self, seconds=0): pass
    def __radd__(self, o): return o
TK.datetime = _FDT; TK.timedelta = _FTD; SB.timedelta = _FTD
class FakeTime:
    def __init__(self, sym): self.sym = sym; self.now = 1000.0; self.n = 0
    def time(self):
        self.n += 1
        d = self.sym.real(f"dt{self.n}", 0, 5)
        self.now = self.now + d
        return self.now
class SymBB(Blackbox):
    def __init__(self, sym, F, ncfg):
        super().__init__(configuration_space={"c": choice(list(range(ncfg)))}, fidelity_space={"epoch": choice(list(range(1, F+1)))}, objectives_names=["loss", "et"])
        self.F = F
        self.tab = {c: [[sym.real(f"loss_{c}_{f}", -5, 5), None] for f in range(F)] for c in range(ncfg)}
        for c in range(ncfg):
            t = 0
            for f in range(F):
                inc = sym.real(f"et_{c}_{f}", -2, 10)   # non-monotone allowed
                t = t + inc
                self.tab[c][f][1] = t
    @property
    def fidelity_values(self): return list(range(1, self.F + 1))
    def fidelity_name(self): return "epoch"
    def _objective_function(self, configuration, fidelity=None, seed=None):
        return [list(x) for x in self.tab[configuration["c"]]]
F = int(sys.argv[1]); NT = int(sys.argv[2])
def harness(sym):
    ft = FakeTime(sym)
    TK.time = ft
    bb = SymBB(sym, F, NT)
    be = UserBlackboxBackend(blackbox=bb, elapsed_time_attr="et", simulator_config=SimulatorConfig(delay_on_trial_result=sym.real("d_res", 0, 1), delay_complete_after_final_report=1.0, delay_complete_after_stop=sym.real("d_cas", 0, 1), delay_start=sym.real("d_start", 0, 1), delay_stop=sym.real("d_stop", 0, 1)))
    be.set_path(results_root=os.environ["SYNETUNE_FOLDER"], tuner_name="p")
    be.time_keeper.start_of_time()
    last_t = 0
    trials = [be.start_trial({"c": c}) for c in range(NT)]
    seen = {c: 0 for c in range(NT)}
    for poll in range(F + 2):
        be.time_keeper.advance(sym.real(f"sleep{poll}", 0, 20))
        st, res = be.fetch_status_results(list(range(NT)))
        for tid, r in res:
            assert r["epoch"] == seen[tid] + 1
            seen[tid] = r["epoch"]
            assert r["loss"] == bb.tab[tid][r["epoch"] - 1][0]
            assert r[ST_TUNER_TIME] <= be.time_keeper.time()
        assert be.time_keeper.time() >= last_t
        last_t = be.time_keeper.time()
st = explore(harness, timeout=int(sys.argv[3]))
print(st)
