import sys, logging
from drv import *
from crosshair.core import NoTracing
logging.disable(logging.CRITICAL)
from syne_tune.optimizer.schedulers.hyperband import HyperbandScheduler
from syne_tune.config_space import uniform
from syne_tune.backend.trial_status import Trial
TYPE = sys.argv[1]; W = int(sys.argv[2]); T = int(sys.argv[3]); E = int(sys.argv[4]); MAXT = 4
class Drv:
    def __init__(self, mode):
        cs = {"x": uniform(0, 1), "epochs": MAXT}
        with NoTracing():
            self.sch = HyperbandScheduler(cs, searcher="random", metric="m", mode=mode, resource_attr="r", max_resource_attr="epochs", type=TYPE, grace_period=1, reduction_factor=2, random_seed=1)
        self.trials = {}; self.sign = 1 if mode == "min" else -1
    def suggest(self):
        s = self.sch.suggest(len(self.trials))
        if s.spawn_new_trial_id:
            tid = len(self.trials); t = Trial(trial_id=tid, config=s.config, creation_time=None); self.trials[tid] = t
            self.sch.on_trial_add(t)
            return ("start", tid, s.config["x"], s.config["epochs"])
        tid = s.checkpoint_trial_id
        if s.config is not None: self.trials[tid].config = s.config
        return ("resume", tid, self.trials[tid].config["epochs"])
    def report(self, tid, r, v):
        d = self.sch.on_trial_result(self.trials[tid], {"m": self.sign * v, "r": r})
        if d == "PAUSE": self.sch.on_trial_remove(self.trials[tid])
        return d
def harness(sym):
    A = Drv("min"); B = Drv("max")
    level = {}; running = []
    for step in range(E):
        opts = len(running) + (1 if len(running) < W else 0)
        if opts == 0: break
        c = sym.int(f"c{step}", 0, opts - 1)
        if c == len(running):
            a = A.suggest(); b = B.suggest()
            assert a == b
            if a[0] == "start":
                if a[1] >= T: break
                level[a[1]] = 0
            running.append(a[1])
        else:
            tid = None
            for i, cand in enumerate(running):
                if c == i: tid = cand
            level[tid] += 1
            v = sym.real(f"m_{tid}_{level[tid]}", -100, 100)
            da = A.report(tid, level[tid], v); db = B.report(tid, level[tid], v)
            assert da == db
            if da != "CONTINUE": running.remove(tid)
st = explore(harness, timeout=int(sys.argv[5]))
print(st)
