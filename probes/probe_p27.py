import sys, logging
from drv import *
import shim, shim2
logging.disable(logging.CRITICAL)
import syne_tune.optimizer.schedulers.searchers.searcher as SR
import syne_tune.config_space as CS
SR.np = shim.NumpyShim(); 
from syne_tune.config_space import randint, uniform, choice, loguniform, lograndint
def harness(sym):
    lo = sym.int("lo", -4, 4); hi = sym.int("hi", -4, 4); sym.assume(lo <= hi)
    cs = {"a": randint(lo, hi), "b": uniform(0.5, 2.0), "c": choice(["x", "y"]), "k": 7}
    pts = []
    for i in range(3):
        p = {}
        if sym.bool(f"has_a{i}"):
            v = sym.int(f"a{i}", -4, 4); sym.assume(lo <= v); sym.assume(v <= hi); p["a"] = v
        if sym.bool(f"has_c{i}"): p["c"] = "y"
        pts.append(p)
    out = SR.impute_points_to_evaluate(pts, cs)
    # members, all keys, dedup, order preserved
    for cfg in out:
        assert set(cfg.keys()) == {"a", "b", "c"}
        assert lo <= cfg["a"] <= hi and 0.5 <= cfg["b"] <= 2.0 and cfg["c"] in ("x", "y")
    for i in range(len(out)):
        for j in range(i + 1, len(out)):
            assert not (out[i]["a"] == out[j]["a"] and out[i]["c"] == out[j]["c"])
    # every input point is represented, first occurrence order
    k = 0
    for p in pts:
        exp_c = p.get("c", "x")
        if k < len(out) and ("a" not in p or out[k]["a"] == p["a"]) and out[k]["c"] == exp_c and not any(("a" in p and o["a"] == p["a"] or "a" not in p and o["a"] == out[k]["a"]) and o["c"] == exp_c for o in out[:k]):
            k += 1
    assert k == len(out)
st = explore(harness, timeout=int(sys.argv[1]))
print(str(st)[:900])
