import sys, re
from drv import *
from crosshair.core import proxy_for_type, NoTracing
from crosshair.statespace import context_statespace
import syne_tune.report as RP
from syne_tune.constants import ST_SAGEMAKER_METRIC_TAG
TAG = "[" + ST_SAGEMAKER_METRIC_TAG + "]: "
L1 = int(sys.argv[1]); L2 = int(sys.argv[2])
def symstr(name, maxlen):
    with NoTracing():
        s = proxy_for_type(str, name)
    if len(s) > maxlen: raise IgnoreAttempt()
    return s
def harness(sym):
    pre = symstr("pre", L1)
    suf = symstr("suf", L2)
    if "\n" in pre or "\n" in suf: raise IgnoreAttempt()
    if ST_SAGEMAKER_METRIC_TAG in pre or ST_SAGEMAKER_METRIC_TAG in suf: raise IgnoreAttempt()
    payload = '{"a": 1}'
    line = pre + TAG + payload + suf
    regex = r"\[" + ST_SAGEMAKER_METRIC_TAG + r"\]: (\{.*\})"
    found = re.findall(regex, line)
    assert len(found) == 1
    assert found[0] == payload
st = explore(harness, timeout=int(sys.argv[3]))
print(st)
