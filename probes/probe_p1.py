import sys
from drv import *
from syne_tune.optimizer.schedulers.hyperband_stopping import StoppingRungSystem

N = int(sys.argv[1]) if len(sys.argv) > 1 else 3
MODE = sys.argv[2] if len(sys.argv) > 2 else "min"
def harness(sym):
    rs = StoppingRungSystem(rung_levels=[1, 3], promote_quantiles=[1/3, 1/3], metric="m", mode=MODE, resource_attr="r", max_t=9)
    vals = [sym.real(f"m{i}", -1000, 1000) for i in range(N)]
    seen = []
    for i, v in enumerate(vals):
        out = rs.on_task_report(str(i), {"m": v, "r": 1}, skip_rungs=0)
        seen.append(v)
        # reference: numpy linear quantile over seen
        n = len(seen)
        if n < 2:
            assert out["task_continues"] is True or out["task_continues"] == True
            continue
        q = 1/3 if MODE == "min" else 1 - 1/3
        s = sorted(seen)
        h = (n - 1) * q
        lo = int(h); g = h - lo
        cutoff = s[lo] + g * (s[min(lo + 1, n - 1)] - s[lo])
        tol = 1e-9 * 2001
        if MODE == "min":
            if v < cutoff - tol: assert out["task_continues"]
            if v > cutoff + tol: assert not out["task_continues"]
        else:
            if v > cutoff + tol: assert out["task_continues"]
            if v < cutoff - tol: assert not out["task_continues"]

print(explore(harness, timeout=120))
