import sys, logging
from drv import *
from crosshair.core import NoTracing
logging.disable(logging.CRITICAL)
from syne_tune.optimizer.schedulers.hyperband import HyperbandScheduler
from syne_tune.config_space import uniform
from syne_tune.backend.trial_status import Trial
MODE = sys.argv[1]; PERB = sys.argv[2] == "1"; B = int(sys.argv[3]); T = int(sys.argv[4]); E = int(sys.argv[5]); W = 2; MAXT = 9; SEED = int(sys.argv[7])
LEVELS = [1, 3]   # grace 1, rf 3, max_t 9
def quantile_ref(vals, q):
    # numpy linear interpolation on python-sorted copy (forks, fine for a probe)
    s = sorted(vals); n = len(s); h = (n - 1) * q; lo = int(h); g = h - lo
    return s[lo] + g * (s[min(lo + 1, n - 1)] - s[lo])
def harness(sym):
    cs = {"x": uniform(0, 1), "epochs": MAXT}
    with NoTracing():
        sch = HyperbandScheduler(cs, searcher="random", metric="m", mode=MODE, resource_attr="r", max_resource_attr="epochs", type="stopping", grace_period=1, reduction_factor=3, brackets=B, rung_system_per_bracket=PERB, random_seed=SEED)
    trials = {}; level = {}; running = []; bracket = {}
    rungs = {}   # (system, level) -> list of values
    for step in range(E):
        nopt = len(running) + (1 if len(running) < W else 0)
        if nopt == 0: break
        c = sym.int(f"c{step}", 0, nopt - 1)
        cc = None
        for i in range(nopt):
            if c == i: cc = i
        if cc == len(running):
            if len(trials) >= T: break
            s = sch.suggest(len(trials)); assert s.spawn_new_trial_id
            tid = len(trials); trials[tid] = Trial(tid, s.config, None); sch.on_trial_add(trials[tid]); level[tid] = 0
            bracket[tid] = sch._active_trials[str(tid)].bracket   # probe shortcut: read the sampled bracket
            running.append(tid)
        else:
            tid = running[cc]; level[tid] += 1; r = level[tid]
            v = sym.real(f"m_{tid}_{r}", -100, 100)
            d = sch.on_trial_result(trials[tid], {"m": v, "r": r})
            b = bracket[tid]
            own_levels = LEVELS[b:]
            expect = None
            if r >= MAXT: expect = "STOP"
            elif r in own_levels:
                key = (b if PERB else 0, r)
                rungs.setdefault(key, []).append(v)
                vals = rungs[key]
                if len(vals) < 2: expect = "CONTINUE"
                else:
                    j = LEVELS.index(r); nxt = LEVELS[j + 1] if j + 1 < len(LEVELS) else MAXT
                    q = r / nxt
                    cut = quantile_ref(vals, q if MODE == "min" else 1 - q)
                    tol = 1e-7
                    if MODE == "min":
                        if v < cut - tol: expect = "CONTINUE"
                        elif v > cut + tol: expect = "STOP"
                    else:
                        if v > cut + tol: expect = "CONTINUE"
                        elif v < cut - tol: expect = "STOP"
            else: expect = "CONTINUE"
            if expect is not None: assert d == expect, (tid, r, b, d, expect)
            if d != "CONTINUE": running.remove(tid)
st = explore(harness, timeout=int(sys.argv[6]))
print(str(st)[:700])
