from drv import *
import pickle, z3
from crosshair.core import NoTracing, deep_realize
from crosshair.statespace import context_statespace
def pin(v):
    """pin a symbolic value to one model value without creating a search-tree branch"""
    with NoTracing():
        sp = context_statespace()
        assert sp.solver.check() == z3.sat
        m = sp.solver.model()
        val = m.eval(v.var, model_completion=True)
        sp.add(v.var == val)
        if z3.is_rational_value(val): return float(val.as_fraction())
        return val.as_long()
class Box:
    def __init__(self): self.items = []
def harness(sym):
    b = Box()
    x = sym.real("x", -5, 5); y = sym.real("y", -5, 5)
    b.items.append(x)
    first = "pos" if x > 0 else "nonpos"
    # snapshot: replace symbolic leaves by pinned values, pickle
    snap = Box(); snap.items = [pin(v) for v in b.items]
    blob = pickle.dumps(snap)
    b2 = pickle.loads(blob)
    # continue both with symbolic y
    r1 = (b.items[0] < y); r2 = (b2.items[0] < y)
    assert bool(r1) == bool(r2)
    assert (first == "pos") == (b2.items[0] > 0)
print(explore(harness, timeout=30))
