import sys, logging
from drv import *
import shim
from crosshair.core import NoTracing
logging.disable(logging.CRITICAL)
import syne_tune.optimizer.schedulers.synchronous.hyperband_bracket as HB
HB.np = shim.NumpyShim()
from syne_tune.optimizer.schedulers.synchronous.hyperband_bracket_manager import SynchronousHyperbandBracketManager
RUNGS = eval(sys.argv[1]); W = int(sys.argv[2]); E = int(sys.argv[3]); MODE = sys.argv[4]
def harness(sym):
    bm = SynchronousHyperbandBracketManager(RUNGS, mode=MODE)
    pending = []; next_tid = 0
    res = {}     # (bracket, rung_index) -> {trial: (is_nan, value)}
    handed = {}  # (bracket, rung_index) -> list of trials handed out
    nbr = 0
    for step in range(E):
        opts = len(pending) + (1 if len(pending) < W else 0)
        c = sym.int(f"c{step}", 0, opts - 1)
        cc = None
        for i in range(opts):
            if c == i: cc = i
        if cc == len(pending):
            b, slot = bm.next_job()
            assert slot is not None
            off = b % len(RUNGS); rungs = RUNGS[off]
            assert slot.level == rungs[slot.rung_index][1]
            key = (b, slot.rung_index)
            if slot.rung_index == 0:
                assert slot.trial_id is None
                slot.trial_id = next_tid; next_tid += 1
            else:
                prev = res.get((b, slot.rung_index - 1), {})
                assert len(prev) == rungs[slot.rung_index - 1][0], "promotion before rung complete"
                t = slot.trial_id
                assert t in prev and t not in handed.get(key, [])
                # t must be among the best new_len of prev (NaN last): count strictly better ones
                size = rungs[slot.rung_index][0]
                tn, tv = prev[t]
                nbetter = 0
                for u, (un, uv) in prev.items():
                    if u == t: continue
                    if tn and not un: nbetter += 1
                    elif (not tn) and (not un):
                        if (uv < tv) if MODE == "min" else (uv > tv): nbetter += 1
                assert nbetter < size, ("promoted trial not in top list", t, nbetter, size)
            handed.setdefault(key, []).append(slot.trial_id)
            assert len(handed[key]) <= rungs[slot.rung_index][0]
            pending.append((b, slot))
        else:
            item = pending[cc]; pending.remove(item)
            b, slot = item
            isnan = sym.bool(f"fail{step}")
            v = float("nan") if isnan else sym.real(f"m{step}", -100, 100)
            slot.metric_val = v
            res.setdefault((b, slot.rung_index), {})[slot.trial_id] = (isnan, v)
            bm.on_result((b, slot))
st = explore(harness, timeout=int(sys.argv[5]))
print(str(st)[:900])
