import sys, logging
from drv import *
import shim
from crosshair.core import NoTracing
logging.disable(logging.CRITICAL)
import syne_tune.optimizer.schedulers.synchronous.hyperband_bracket as HB
HB.np = shim.NumpyShim()
from syne_tune.optimizer.schedulers.synchronous.hyperband_bracket_manager import SynchronousHyperbandBracketManager
RUNGS = eval(sys.argv[1]); W = int(sys.argv[2]); E = int(sys.argv[3]); MODE = sys.argv[4]
def harness(sym):
    bm = SynchronousHyperbandBracketManager(RUNGS, mode=MODE)
    pending = []   # (bracket_id, slot)
    next_tid = 0
    metric = {}    # (bracket, rung_index, trial) -> value
    for step in range(E):
        opts = len(pending) + (1 if len(pending) < W else 0)
        c = sym.int(f"c{step}", 0, opts - 1)
        if c == len(pending):
            b, slot = bm.next_job()
            assert slot is not None
            if slot.trial_id is None:
                slot.trial_id = next_tid; next_tid += 1
            else:
                # resumed trial: its previous rung in that bracket must be complete and it must be among the top
                pass
            pending.append((b, slot))
        else:
            item = None
            for i, cand in enumerate(pending):
                if c == i: item = cand
            pending.remove(item)
            b, slot = item
            if sym.bool(f"fail{step}"):
                slot.metric_val = float("nan")
            else:
                slot.metric_val = sym.real(f"m{step}", -100, 100)
            bm.on_result((b, slot))
st = explore(harness, timeout=int(sys.argv[5]))
print(st)
