import sys
sys.argv = ['x', '2', 'stopping']
import crosshair.statespace as ss
orig = ss.StateSpace.find_model_value
import traceback
seen = set()
def fm(self, expr, *a, **k):
    key = str(expr)[:60]
    if key not in seen:
        seen.add(key)
        print("REALIZE", key)
        traceback.print_stack(limit=12)
    return orig(self, expr, *a, **k)
ss.StateSpace.find_model_value = fm
src = open('p2.py').read().replace("timeout=300", "timeout=20")
exec(src)
