import z3, time, sys, itertools
n = int(sys.argv[1])
R = z3.Real
L = [[R(f"l{i}{j}") if j <= i else z3.RealVal(0) for j in range(n)] for i in range(n)]
y = [R(f"y{i}") for i in range(n)]
ks = [R(f"k{i}") for i in range(n)]
s = z3.Solver()
for i in range(n): s.add(L[i][i] > 0)
A = [[sum(L[i][k]*L[j][k] for k in range(n)) for j in range(n)] for i in range(n)]
def fwd(L, b, m=None):
    m = m or len(b)
    x = []
    for i in range(m):
        x.append((b[i] - sum(L[i][k]*x[k] for k in range(i))) / L[i][i])
    return x
def det(M):
    m = len(M)
    if m == 1: return M[0][0]
    return sum(((-1)**j) * M[0][j] * det([row[:j]+row[j+1:] for row in M[1:]]) for j in range(m))
def inverse(M):
    m = len(M); d = det(M)
    cof = [[((-1)**(i+j)) * det([row[:j]+row[j+1:] for k,row in enumerate(M) if k != i]) for j in range(m)] for i in range(m)]
    return [[cof[j][i]/d for j in range(m)] for i in range(m)]
inv = inverse(A)
mean_ref = sum(ks[i]*inv[i][j]*y[j] for i in range(n) for j in range(n))
var_ref = sum(ks[i]*inv[i][j]*ks[j] for i in range(n) for j in range(n))
# code path 1: from scratch
P = fwd(L, y); V = fwd(L, ks)
checks = {"mean_scratch": sum(V[i]*P[i] for i in range(n)) != mean_ref,
          "var_scratch": sum(V[i]*V[i] for i in range(n)) != var_ref}
# code path 2: incremental update: state for first n-1 points, then cholesky_update with point n
m = n-1
Lm = [row[:m] for row in L[:m]]
Pm = fwd(Lm, y[:m])
kvec = [A[n-1][j] for j in range(m)]       # k(X, x_new) + (noise on diag only)
lvec = fwd(Lm, kvec)
lsq = A[n-1][n-1] - sum(v*v for v in lvec)
lscal = R("lscal"); s.add(lscal*lscal == lsq, lscal >= 0)   # sqrt shim
pnew = (y[n-1] - sum(lvec[j]*Pm[j] for j in range(m))) / lscal
Lnew = [Lm[i]+[z3.RealVal(0)] for i in range(m)] + [lvec+[lscal]]
Pnew = Pm + [pnew]
Vn = fwd(Lnew, ks)
checks["mean_update"] = sum(Vn[i]*Pnew[i] for i in range(n)) != mean_ref
checks["var_update"] = sum(Vn[i]*Vn[i] for i in range(n)) != var_ref
for name, neg in checks.items():
    s.push(); s.add(neg); s.set("timeout", 300000)
    t=time.time(); r = s.check(); print(n, name, r, round(time.time()-t,2), flush=True); s.pop()
