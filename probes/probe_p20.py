import sys, logging
from drv import *
import shim
from crosshair.core import NoTracing
logging.disable(logging.CRITICAL)
from syne_tune.optimizer.schedulers.hyperband import HyperbandScheduler
import syne_tune.optimizer.schedulers.searchers.model_based_searcher as MBS
MBS.np = shim.NumpyShim()
from syne_tune.config_space import uniform
from syne_tune.backend.trial_status import Trial
TYPE = sys.argv[1]; SD = sys.argv[2]; MYOPIC = sys.argv[3] == "1"; FAIL = sys.argv[4] == "1"; W = 2; T = 3; E = int(sys.argv[5]); MAXT = 4
def harness(sym):
    cs = {"x": uniform(0, 1), "epochs": MAXT}
    with NoTracing():
        sch = HyperbandScheduler(cs, searcher="bayesopt", metric="m", mode="min", resource_attr="r", max_resource_attr="epochs", type=TYPE, grace_period=1, reduction_factor=2, random_seed=1, searcher_data=SD, register_pending_myopic=MYOPIC, search_options={"debug_log": False})
    trials = {}; level = {}; running = []; reported = {}; nfail = 0
    def check(where):
        st = sch.searcher.state_transformer.state
        for p in st.pending_evaluations:
            assert int(p.trial_id) in running, (where, "pending for non-running", p.trial_id, p.resource, list(running))
        seen = set()
        for ev in st.trials_evaluations:
            tgt = ev.metrics.get("target", {})
            for rs, val in tgt.items():
                assert (ev.trial_id, rs) not in seen; seen.add((ev.trial_id, rs))
                assert val == reported[(int(ev.trial_id), int(rs))]
        for p in st.pending_evaluations:
            assert (p.trial_id, str(p.resource)) not in seen, (where, "pending at observed level")
    for step in range(E):
        nopt = len(running) * (2 if FAIL and nfail < 1 else 1) + (1 if len(running) < W else 0)
        if nopt == 0: break
        c = sym.int(f"c{step}", 0, nopt - 1)
        cc = None
        for i in range(nopt):
            if c == i: cc = i
        if cc == nopt - 1 and len(running) < W:
            s = sch.suggest(len(trials))
            if s.spawn_new_trial_id:
                if len(trials) >= T: break
                tid = len(trials); trials[tid] = Trial(tid, s.config, None); sch.on_trial_add(trials[tid]); level[tid] = 0
            else:
                tid = s.checkpoint_trial_id
                if s.config is not None: trials[tid].config = s.config
            running.append(tid); check(f"suggest{step}")
        elif cc < len(running):
            tid = running[cc]
            level[tid] += 1
            v = sym.real(f"m_{tid}_{level[tid]}", -100, 100)
            reported[(tid, level[tid])] = v
            d = sch.on_trial_result(trials[tid], {"m": v, "r": level[tid]})
            if d != "CONTINUE":
                if d == "PAUSE": sch.on_trial_remove(trials[tid])
                running.remove(tid)
            check(f"report{step}")
        else:
            tid = running[cc - len(running)]
            sch.on_trial_error(trials[tid]); running.remove(tid); nfail += 1
            check(f"fail{step}")
st = explore(harness, timeout=int(sys.argv[6]))
print(str(st)[:900])
