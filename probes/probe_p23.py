"""inductive one-step probe for the tuner loop (C01-style), T trial slots, arbitrary pre-state satisfying Inv"""
import sys, logging, os, tempfile, ast, inspect, textwrap
os.environ["SYNETUNE_FOLDER"] = tempfile.mkdtemp(prefix="st_")
from drv import *
from crosshair.core import NoTracing
logging.disable(logging.CRITICAL)
import syne_tune.tuner as TM
import syne_tune.tuning_status as _ts
_ts.TuningStatus.__str__ = lambda self: ''
from syne_tune import Tuner, StoppingCriterion
from syne_tune.backend.trial_backend import TrialBackend
from syne_tune.backend.trial_status import TrialResult, Status, Trial
from syne_tune.optimizer.scheduler import TrialScheduler, TrialSuggestion, SchedulerDecision
from syne_tune.tuner_callback import TunerCallback
from syne_tune.constants import ST_WORKER_TIMESTAMP
from pathlib import Path
import datetime
# ---- lift
src = textwrap.dedent(inspect.getsource(TM.Tuner.run)); fn = ast.parse(src).body[0]
tr = [n for n in fn.body if isinstance(n, ast.Try)][0]; wh = [n for n in tr.body if isinstance(n, ast.While)][0]
pre = tr.body[:tr.body.index(wh)]
step_src = "def _step(self, done_trials_statuses, running_trials_ids, config_space_exhausted, stop_condition_reached):\n    _broke = True\n    for _once in (0,):\n" + textwrap.indent("\n".join(ast.unparse(s) for s in wh.body), "        ") + "\n        _broke = False\n    return running_trials_ids, config_space_exhausted, stop_condition_reached, _broke\n"
pro_src = "def _prologue(self):\n" + textwrap.indent("\n".join(ast.unparse(s) for s in pre), "    ") + "\n    return running_trials_ids, config_space_exhausted, stop_condition_reached\n"
ns = {}; exec(compile(step_src + pro_src, "<lifted>", "exec"), TM.__dict__, ns)
STEP, PRO = ns["_step"], ns["_prologue"]
U, Rn, P, S, C, F = range(6)
ST = {Rn: Status.in_progress, P: Status.paused, S: Status.stopped, C: Status.completed, F: Status.failed}
class SB(TrialBackend):
    def __init__(self, sym, R, K): super().__init__(); self.sym = sym; self.R = R; self.K = K; self.wst = {}; self.nr = {}; self.clock = 100; self.ops = []
    def _schedule(self, trial_id, config):
        t = trial_id; self.wst[t] = Status.in_progress; self.nr.setdefault(t, 1); self.ops.append(("sched", t))
    def _resume_trial(self, trial_id):
        t = trial_id; self.ops.append(("resume", t, self._trial_dict[t].status))
    def _pause_trial(self, trial_id, result):
        t = trial_id; self.wst[t] = Status.paused
    def _stop_trial(self, trial_id, result):
        t = trial_id; self.wst[t] = Status.stopped
    def copy_checkpoint(self, a, b): pass
    def delete_checkpoint(self, t): pass
    def entrypoint_path(self): return Path("d.py")
    def busy_trial_ids(self): return [(t, s) for t, s in self.wst.items() if s == Status.in_progress]
    def stdout(self, t): return []
    def stderr(self, t): return []
    def _all_trial_results(self, ids):
        out = []
        for t in ids:
            trr = self._trial_dict[t]
            if self.wst[t] == Status.in_progress:
                k = self.sym.int(f"k_t{t}", 0, self.K)
                for _ in range(self.K):
                    if k > 0 and self.nr[t] <= self.R:
                        self.clock += 1; trr.metrics.append({"m": 1.0, "r": self.nr[t], ST_WORKER_TIMESTAMP: self.clock}); self.nr[t] += 1; k = k - 1
                if self.nr[t] > self.R:
                    e = self.sym.int(f"end_t{t}", 0, 2)
                    if e == 1: self.wst[t] = Status.completed
                    if e == 2: self.wst[t] = Status.failed
            trr.status = self.wst[t]; out.append(trr)
        return out
class NDS(TrialScheduler):
    def __init__(self, sym): super().__init__({"x": 1}); self.sym = sym; self.paused = []; self.n = 0; self.calls = []
    def _suggest(self, trial_id):
        self.n += 1
        if self.paused and self.sym.bool(f"resume_{self.n}"):
            t = self.paused.pop(0); self.calls.append(("sresume", t)); return TrialSuggestion.resume_suggestion(t)
        if self.sym.bool(f"none_{self.n}"): return None
        self.calls.append(("sstart", trial_id)); return TrialSuggestion.start_suggestion({"x": 1})
    def on_trial_add(self, trial): self.calls.append(("add", trial.trial_id))
    def on_trial_result(self, trial, result):
        self.n += 1; d = self.sym.int(f"dec_{self.n}", 0, 2)
        dec = [SchedulerDecision.CONTINUE, SchedulerDecision.PAUSE, SchedulerDecision.STOP][d]
        self.calls.append(("result", trial.trial_id, result["r"], dec))
        if dec == SchedulerDecision.PAUSE: self.paused.append(trial.trial_id)
        return dec
    def on_trial_remove(self, trial): self.calls.append(("remove", trial.trial_id))
    def on_trial_complete(self, trial, result): self.calls.append(("complete", trial.trial_id))
    def on_trial_error(self, trial): self.calls.append(("error", trial.trial_id))
    def metric_names(self): return ["m"]
    def metric_mode(self): return "min"
T = int(sys.argv[1]); W = int(sys.argv[2]); R = 2; K = 2
def harness(sym):
    sch = NDS(sym); be = SB(sym, R, K)
    tuner = Tuner(trial_backend=be, scheduler=sch, stop_criterion=lambda st: False, n_workers=W, sleep_time=0, callbacks=[], save_tuner=False, tuner_name="ind", suffix_tuner_name=False, results_update_interval=1e9, print_update_interval=1e9, max_failures=10)
    running, cse, scr = PRO(tuner)
    # ---- arbitrary pre-state satisfying Inv
    s = [sym.int(f"s{t}", 0, 5) for t in range(T)]
    m = [sym.int(f"m{t}", 0, R) for t in range(T)]
    sc = [None] * T; mc = [None] * T
    for t in range(T):
        for val in range(6):
            if s[t] == val: sc[t] = val
        for val in range(R + 1):
            if m[t] == val: mc[t] = val
    for t in range(1, T): sym.assume(not (sc[t] != U and sc[t - 1] == U))
    sym.assume(sum(1 for t in range(T) if sc[t] == Rn) <= W)
    for t in range(T):
        if sc[t] == U: sym.assume(mc[t] == 0); continue
        if sc[t] in (P, S): sym.assume(mc[t] >= 1)       # a scheduler decision needs a result
        if sc[t] == C: sym.assume(mc[t] == R)
        trr = TrialResult(trial_id=t, config={"x": 1}, status=ST[sc[t]], metrics=[{"m": 1.0, "r": i + 1, ST_WORKER_TIMESTAMP: i} for i in range(mc[t])], creation_time=datetime.datetime(2020, 1, 1))
        be.trial_ids.append(t); be._trial_dict[t] = trr; be._last_metric_seen_index[t] = mc[t]
        be.wst[t] = ST[sc[t]]; be.nr[t] = mc[t] + 1
        tuner.tuning_status.update({t: (Trial(t, {"x": 1}, None), ST[sc[t]])}, [])
        if mc[t] > 0: tuner.last_seen_result_per_trial[t] = trr.metrics[-1]
        if sc[t] == Rn: running.add(t)
        if sc[t] == P: sch.paused.append(t)
        if sc[t] == S: tuner.trials_scheduler_stopped.add(t)
    started_before = len(be.trial_ids)
    done = {}
    running, cse, scr, broke = STEP(tuner, done, running, cse, scr)
    # ---- step properties
    assert len(running) <= W
    assert len([t for t, st in be.wst.items() if st == Status.in_progress]) <= W
    assert be.trial_ids == list(range(len(be.trial_ids)))
    for op in be.ops:
        if op[0] == "resume": assert op[2] == Status.paused and sc[op[1]] in (P, Rn) 
    for t in running: assert be.wst[t] in (Status.in_progress, Status.completed, Status.failed)
    for t in range(len(be.trial_ids)):
        if be.wst[t] == Status.in_progress: assert t in running          # nobody occupies a worker unnoticed
    # ---- Inv re-established (projection)
    assert sum(1 for t in running) <= W
st = explore(harness, timeout=int(sys.argv[3]))
print(str(st)[:1200])
