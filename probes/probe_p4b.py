import sys
from drv import *
import shim
import syne_tune.optimizer.schedulers.searchers.utils.hp_ranges_impl as H
from syne_tune.optimizer.schedulers.searchers.utils.scaling import LinearScaling
H.np = shim.NumpyShim()
MODE = sys.argv[1]; LO = int(sys.argv[2]); HI = int(sys.argv[3])
def harness(sym):
    hp = sym.int("hp", LO, HI)
    r = H.HyperparameterRangeInteger("x", LO, HI, LinearScaling())
    enc = r.to_ndarray(hp)
    v = enc.item() if hasattr(enc, "item") else enc[0]
    assert 0.0 <= v <= 1.0
    dec = r.from_ndarray(enc)
    assert dec == hp
    # decode of arbitrary cube point is a member
    u = sym.real("u", 0, 1) if MODE == 'real' else sym.fp("u")
    if MODE != 'real':
        sym.assume(u >= 0.0); sym.assume(u <= 1.0)
    d2 = r.from_ndarray(shim.SymArr([u]))
    assert LO <= d2 <= HI
st = explore(harness, timeout=int(sys.argv[4]), floatmode=MODE)
print(st)
