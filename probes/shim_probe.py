"""numpy shim: delegates to numpy unless an argument is a crosshair symbolic scalar"""
import numpy as _np
import math
from crosshair.core import NoTracing
from crosshair.libimpl.builtinslib import SymbolicNumberAble

def _issym(v):
    with NoTracing():
        return SymbolicNumberAble in type(v).__mro__

class SymArr:
    """1-element or small 1-d array of python/symbolic scalars"""
    def __init__(self, items): self.items = list(items)
    def item(self): 
        assert len(self.items) == 1
        return self.items[0]
    def __getitem__(self, i): return self.items[i]
    def __len__(self): return len(self.items)
    def reshape(self, *a): return self
    @property
    def size(self): return len(self.items)

class NumpyShim:
    def __init__(self): pass
    def __getattr__(self, name):
        return getattr(_np, name)
    def clip(self, x, lo, hi):
        if _issym(x) or _issym(lo) or _issym(hi):
            if x < lo: return lo
            if x > hi: return hi
            return x
        return _np.clip(x, lo, hi)
    def array(self, x, *a, **k):
        if isinstance(x, (list, tuple)) and any(_issym(e) for e in x):
            return SymArr(x)
        return _np.array(x, *a, **k)
    def round(self, x, *a):
        if _issym(x): return round(x)
        return _np.round(x, *a)
    def isnan(self, x):
        if _issym(x): return x != x
        return _np.isnan(x)
def _isinf(self, x):
    if _issym(x): return False   # real-based symbolic floats are finite by construction
    return _np.isinf(x)
NumpyShim.isinf = _isinf
