import sys, logging, os, tempfile
os.environ["SYNETUNE_FOLDER"] = tempfile.mkdtemp(prefix="st_")
from drv import *
from crosshair.core import NoTracing
logging.disable(logging.CRITICAL)
import syne_tune.tuning_status as _ts
_ts.TuningStatus.__str__ = lambda self: ''
import builtins
from syne_tune import Tuner, StoppingCriterion
from syne_tune.backend.trial_backend import TrialBackend
from syne_tune.backend.trial_status import TrialResult, Status, Trial
from syne_tune.optimizer.schedulers.hyperband import HyperbandScheduler
from syne_tune.config_space import uniform
from syne_tune.tuner_callback import TunerCallback
from syne_tune.constants import ST_WORKER_TIMESTAMP
from pathlib import Path
import datetime

class ScriptedBackend(TrialBackend):
    """in-memory backend: each running trial emits results r=1..R; per poll, the number of
    newly visible results per trial is a symbolic choice; completion visible once all results are out"""
    def __init__(self, sym, R, K, **kw):
        super().__init__(**kw)
        self.sym = sym; self.R = R; self.K = K
        self.emitted = {}   # trial -> list of results (full run history since last (re)start)
        self.state = {}     # trial -> status
        self.next_r = {}
        self.poll = 0
        self.stutter = 0
        self.clock = 0
        self.log = []
    def _schedule(self, trial_id, config):
        self.state[trial_id] = Status.in_progress
        if trial_id not in self.next_r: self.next_r[trial_id] = 1
        self.log.append(("start", trial_id))
    def _resume_trial(self, trial_id): pass
    def _pause_trial(self, trial_id, result): self.state[trial_id] = Status.paused; self.log.append(("pause", trial_id))
    def _stop_trial(self, trial_id, result): self.state[trial_id] = Status.stopped; self.log.append(("stop", trial_id))
    def copy_checkpoint(self, src_trial_id, tgt_trial_id): self.log.append(("copy", src_trial_id, tgt_trial_id))
    def delete_checkpoint(self, trial_id): self.log.append(("delete", trial_id))
    def entrypoint_path(self): return Path("dummy.py")
    def set_path(self, results_root=None, tuner_name=None): pass
    def busy_trial_ids(self): return [(t, s) for t, s in self.state.items() if s == Status.in_progress]
    def stdout(self, trial_id): return []
    def stderr(self, trial_id): return []
    def _all_trial_results(self, trial_ids):
        self.poll += 1
        out = []
        for t in trial_ids:
            tr = self._trial_dict[t]
            if self.state[t] == Status.in_progress:
                lo = 0 if self.stutter < 1 else 1
                k = self.sym.int(f"k_p{self.poll}_t{t}", lo, self.K)
                if k == 0: self.stutter += 1
                else: self.stutter = 0
                for _ in range(self.K):
                    if k > 0 and self.next_r[t] <= self.R:
                        self.clock += 1
                        v = self.sym.real(f"m_t{t}_r{self.next_r[t]}", -10, 10)
                        tr.metrics.append({"m": v, "r": self.next_r[t], ST_WORKER_TIMESTAMP: self.clock})
                        self.next_r[t] += 1
                        k = k - 1
                if self.next_r[t] > self.R:
                    if True:
                        self.state[t] = Status.completed
            tr.status = self.state[t]
            out.append(tr)
        return out

class Mon(TunerCallback):
    def __init__(self): self.ev = []
    def on_trial_result(self, trial, status, result, decision): self.ev.append(("res", trial.trial_id, result["r"], decision))
    def on_start_trial(self, trial): self.ev.append(("start", trial.trial_id))
    def on_resume_trial(self, trial): self.ev.append(("resume", trial.trial_id))
    def on_trial_complete(self, trial, result): self.ev.append(("complete", trial.trial_id))

NW = int(sys.argv[1]); NT = int(sys.argv[2]); R = int(sys.argv[3]); K = int(sys.argv[4]); TYPE = sys.argv[5]
def harness(sym):
    cs = {"x": uniform(0, 1), "epochs": R}
    sch = HyperbandScheduler(cs, searcher="random", metric="m", mode="min", resource_attr="r", max_resource_attr="epochs", type=TYPE, grace_period=1, reduction_factor=2, random_seed=1)
    be = ScriptedBackend(sym, R, K)
    mon = Mon()
    tuner = Tuner(trial_backend=be, scheduler=sch, stop_criterion=StoppingCriterion(max_num_trials_finished=NT-1), n_workers=NW, sleep_time=0, callbacks=[mon], save_tuner=False, tuner_name="probe", suffix_tuner_name=False, results_update_interval=1e9, print_update_interval=1e9)
    tuner.run()
    # property: per trial results delivered are gap-free prefix in order
    seen = {}
    for e in mon.ev:
        if e[0] == "res":
            assert e[2] == seen.get(e[1], 0) + 1
            seen[e[1]] = e[2]
st = explore(harness, timeout=int(sys.argv[6]))
print(st)
