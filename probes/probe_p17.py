import sys, logging, dill, z3
from drv import *
from crosshair.core import NoTracing, deep_realize
from crosshair.statespace import context_statespace
logging.disable(logging.CRITICAL)
from syne_tune.optimizer.schedulers.hyperband import HyperbandScheduler
from syne_tune.config_space import uniform
from syne_tune.backend.trial_status import Trial
TYPE = sys.argv[1]
def pin_all(sym):
    with NoTracing():
        sp = context_statespace()
        assert sp.solver.check() == z3.sat
        m = sp.solver.model()
        for v in sym.vars.values():
            sp.add(v.var == m.eval(v.var, model_completion=True))
def mk():
    cs = {"x": uniform(0, 1), "epochs": 4}
    with NoTracing():
        return HyperbandScheduler(cs, searcher="random", metric="m", mode="min", resource_attr="r", max_resource_attr="epochs", type=TYPE, grace_period=1, reduction_factor=2, random_seed=3)
class D:
    def __init__(self, sch, trials=None): self.sch = sch; self.trials = trials or {}
    def suggest(self):
        s = self.sch.suggest(len(self.trials))
        if s.spawn_new_trial_id:
            t = Trial(len(self.trials), s.config, None); self.trials[t.trial_id] = t; self.sch.on_trial_add(t)
            return ("start", t.trial_id, s.config["x"])
        if s.config is not None: self.trials[s.checkpoint_trial_id].config = s.config
        return ("resume", s.checkpoint_trial_id)
    def report(self, tid, r, v):
        d = self.sch.on_trial_result(self.trials[tid], {"m": v, "r": r})
        if d == "PAUSE": self.sch.on_trial_remove(self.trials[tid])
        return d
def harness(sym):
    a = D(mk())
    script = [("s",), ("s",), ("r", 0, 1), ("r", 1, 1), ("s",), ("r", 2, 1), ("s",), ("s",)]
    k = sym.int("k", 0, len(script))
    out_a = []; b = None; out_b = []
    for i, ev in enumerate(script):
        if k == i:
            pin_all(sym)
            with NoTracing():
                blob = dill.dumps(deep_realize((a.sch, a.trials)))
                sch2, trials2 = dill.loads(blob)
            b = D(sch2, trials2)
        v = sym.real(f"v{i}", -5, 5) if ev[0] == "r" else None
        for d, out in ((a, out_a), (b, out_b)):
            if d is None: continue
            if ev[0] == "s": out.append(d.suggest())
            elif ev[1] in d.trials: out.append(d.report(ev[1], ev[2], v))
    if b is not None:
        assert out_a[len(out_a) - len(out_b):] == out_b
st = explore(harness, timeout=int(sys.argv[2]))
print(st)
