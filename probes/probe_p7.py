import sys
from drv import *
import numpy as np
from crosshair.core import NoTracing
import syne_tune.optimizer.schedulers.multiobjective.non_dominated_priority as ND

class SymRow:
    def __init__(self, vals): self.vals = list(vals)
    def _cmp(self, other, op):
        # other: SymMat -> concrete bool ndarray [n, d], each entry decided by a solver fork
        out = np.zeros((len(other.rows), len(self.vals)), dtype=bool)
        for i, r in enumerate(other.rows):
            for j, v in enumerate(r.vals):
                out[i, j] = bool(op(self.vals[j], v))
        return out
    def __le__(self, other): return self._cmp(other, lambda a, b: a <= b)
    def __lt__(self, other): return self._cmp(other, lambda a, b: a < b)
class SymMat:
    def __init__(self, rows): self.rows = [r if isinstance(r, SymRow) else SymRow(r) for r in rows]
    @property
    def shape(self): return (len(self.rows), len(self.rows[0].vals) if self.rows else 0)
    def __iter__(self): return iter(self.rows)
    def __getitem__(self, idx):
        with NoTracing():
            idx = np.asarray(idx)
        if idx.dtype == bool:
            return SymMat([r for r, m in zip(self.rows, idx) if m])
        return SymMat([self.rows[int(i)] for i in idx])

N = int(sys.argv[1]); D = int(sys.argv[2])
def harness(sym):
    X = SymMat([[sym.real(f"x{i}{j}", -5, 5) for j in range(D)] for i in range(N)])
    mask = ND.pareto_efficient(X)
    # brute-force oracle
    for i in range(N):
        dominated = False
        for k in range(N):
            if k != i:
                le = all(X.rows[k].vals[j] <= X.rows[i].vals[j] for j in range(D))
                lt = any(X.rows[k].vals[j] < X.rows[i].vals[j] for j in range(D))
                if le and lt: dominated = True
        assert bool(mask[i]) == (not dominated)
st = explore(harness, timeout=int(sys.argv[3]))
print(st)
