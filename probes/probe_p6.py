import sys, logging, os, tempfile
os.environ["SYNETUNE_FOLDER"] = tempfile.mkdtemp(prefix="st_")
exec(open('p5.py').read().split("NW = int(sys.argv[1])")[0].replace('v = self.sym.real(f"m_t{t}_r{self.next_r[t]}", -10, 10)', 'v = float(self.next_r[t])'))
from syne_tune.optimizer.scheduler import TrialScheduler, TrialSuggestion, SchedulerDecision
class NondetScheduler(TrialScheduler):
    """arbitrary scheduler obeying the API contract"""
    def __init__(self, sym, max_trials):
        super().__init__({"x": 1})
        self.sym = sym; self.paused = []; self.n = 0; self.max_trials = max_trials; self.calls = []
    def _suggest(self, trial_id):
        self.n += 1
        if self.paused and self.sym.bool(f"resume_{self.n}"):
            t = self.paused.pop(0)
            self.calls.append(("suggest_resume", t))
            return TrialSuggestion.resume_suggestion(t)
        if trial_id >= self.max_trials:
            return None
        self.calls.append(("suggest_start", trial_id))
        return TrialSuggestion.start_suggestion({"x": 1})
    def on_trial_add(self, trial): self.calls.append(("add", trial.trial_id))
    def on_trial_result(self, trial, result):
        self.n += 1
        d = self.sym.int(f"dec_{self.n}", 0, 2)
        dec = [SchedulerDecision.CONTINUE, SchedulerDecision.PAUSE, SchedulerDecision.STOP][d]
        self.calls.append(("result", trial.trial_id, result["r"], dec))
        if dec == SchedulerDecision.PAUSE: self.paused.append(trial.trial_id)
        return dec
    def on_trial_remove(self, trial): self.calls.append(("remove", trial.trial_id))
    def on_trial_complete(self, trial, result): self.calls.append(("complete", trial.trial_id))
    def on_trial_error(self, trial): self.calls.append(("error", trial.trial_id))
    def metric_names(self): return ["m"]
    def metric_mode(self): return "min"
NW = int(sys.argv[1]); NT = int(sys.argv[2]); R = int(sys.argv[3]); K = int(sys.argv[4])
def harness(sym):
    sch = NondetScheduler(sym, NT)
    be = ScriptedBackend(sym, R, K)
    mon = Mon()
    tuner = Tuner(trial_backend=be, scheduler=sch, stop_criterion=StoppingCriterion(max_num_trials_finished=NT), n_workers=NW, sleep_time=0, callbacks=[mon], save_tuner=False, tuner_name="probe", suffix_tuner_name=False, results_update_interval=1e9, print_update_interval=1e9)
    tuner.run()
    seen = {}
    running = set()
    for c in sch.calls:
        pass
st = explore(harness, timeout=int(sys.argv[5]))
print(st)
