import sys, logging, random
from drv import *
from crosshair.core import NoTracing
import numpy as np
logging.disable(logging.CRITICAL)
from syne_tune.optimizer.schedulers.hyperband import HyperbandScheduler
from syne_tune.optimizer.schedulers.pbt import PopulationBasedTraining
from syne_tune.config_space import uniform, randint
from syne_tune.backend.trial_status import Trial
KIND = sys.argv[1]
class Stream:
    calls = 0
    def __init__(self, sym, tag): self.sym = sym; self.tag = tag; self.n = 0
    def _f(self, lo=0.0, hi=1.0):
        Stream.calls += 1; self.n += 1
        return self.sym.real(f"g_{self.tag}_{self.n}", lo, hi)
    def uniform(self, low=0.0, high=1.0, size=None): return self._f(low, high)
    def rand(self, *a): return self._f()
    def random(self, *a): return self._f()
    def randint(self, low, high=None, size=None):
        Stream.calls += 1; self.n += 1
        if high is None: low, high = 0, low
        return self.sym.int(f"gi_{self.tag}_{self.n}", low, high - 1)
    def choice(self, a, size=None, replace=True, p=None):
        n = a if isinstance(a, int) else len(a)
        i = self.randint(0, n)
        return i if isinstance(a, int) else a[i]
    def normal(self, loc=0.0, scale=1.0, size=None): return self._f(-10, 10)
    def seed(self, *a): Stream.calls += 1
NAMES = ["uniform", "rand", "random", "randint", "choice", "normal", "seed"]
def install(stream):
    for n in NAMES: setattr(np.random, n, getattr(stream, n))
    random.random = stream.random; random.uniform = stream.uniform
ORIG = {n: getattr(np.random, n) for n in NAMES}; ORIG_R = (random.random, random.uniform)
def mk():
    cs = {"x": uniform(0, 1), "n": randint(1, 5), "epochs": 4}
    with NoTracing():
        if KIND == "pbt":
            return PopulationBasedTraining(cs, metric="m", mode="min", resource_attr="r", max_t=4, population_size=2, perturbation_interval=1, random_seed=7)
        return HyperbandScheduler(cs, searcher="random", metric="m", mode="min", resource_attr="r", max_resource_attr="epochs", type=KIND, grace_period=1, reduction_factor=2, random_seed=7, brackets=2)
def run(sch, sym, stream, script):
    install(stream)
    out = []; trials = {}
    for (op, tid, r, v) in script:
        if op == "s":
            s = sch.suggest(len(trials))
            if s.spawn_new_trial_id:
                t = Trial(len(trials), s.config, None); trials[t.trial_id] = t; sch.on_trial_add(t)
            out.append((s.spawn_new_trial_id, s.checkpoint_trial_id, s.config))
        else:
            if tid in trials: out.append(sch.on_trial_result(trials[tid], {"m": v, "r": r}))
    return out
def harness(sym):
    Stream.calls = 0
    vs = [sym.real(f"v{i}", -5, 5) for i in range(4)]
    script = [("s",0,0,0), ("s",0,0,0), ("r",0,1,vs[0]), ("r",1,1,vs[1]), ("s",0,0,0), ("r",2,1,vs[2]), ("r",0,2,vs[3])]
    try:
        a = run(mk(), sym, Stream(sym, "a"), script)
        b = run(mk(), sym, Stream(sym, "b"), script)
    finally:
        for n, f in ORIG.items(): setattr(np.random, n, f)
        random.random, random.uniform = ORIG_R
    assert a == b
    assert Stream.calls == 0
st = explore(harness, timeout=int(sys.argv[2]))
print(st)
