"""C10 oracle pre-validation: time stamps with pause/resume, checkpointing on/off, symbolic table and delays"""
import sys as _s; _s.modules["yahpo_gym"] = None
import sys, logging, os, tempfile
os.environ["SYNETUNE_FOLDER"] = tempfile.mkdtemp(prefix="st_")
from drv import *
logging.disable(logging.CRITICAL)
from syne_tune.blackbox_repository.simulated_tabular_backend import UserBlackboxBackend
from syne_tune.blackbox_repository.blackbox import Blackbox
from syne_tune.backend.simulator_backend.simulator_backend import SimulatorConfig
import syne_tune.backend.simulator_backend.time_keeper as TK
import syne_tune.backend.simulator_backend.simulator_backend as SB
from syne_tune.config_space import choice
from syne_tune.constants import ST_TUNER_TIME
import datetime as _dt
class _FDT:
    @staticmethod
    def now(): return _dt.datetime(2020, 1, 1)
class _FTD:
    def __init__(self, seconds=0): pass
    def __radd__(self, o): return o
TK.datetime = _FDT; TK.timedelta = _FTD; SB.timedelta = _FTD
class FakeTime:
    def __init__(self, sym, symbolic): self.sym = sym; self.now = 1000.0; self.n = 0; self.symbolic = symbolic
    def time(self):
        self.n += 1
        self.now = self.now + (self.sym.real(f"dt{self.n}", 0, 5) if self.symbolic else 0.25)
        return self.now
class SymBB(Blackbox):
    def __init__(self, sym, F):
        super().__init__(configuration_space={"c": choice([0])}, fidelity_space={"epoch": choice(list(range(1, F+1)))}, objectives_names=["loss", "et"])
        self.F = F; self.tab = []; t = 0
        for f in range(F):
            t = t + sym.real(f"et_{f}", -2, 10)
            self.tab.append([sym.real(f"loss_{f}", -5, 5), t])
    @property
    def fidelity_values(self): return list(range(1, self.F + 1))
    def fidelity_name(self): return "epoch"
    def _objective_function(self, configuration, fidelity=None, seed=None): return [list(x) for x in self.tab]
F = int(sys.argv[1]); CKPT = sys.argv[2] == "1"; SYMCLOCK = sys.argv[3] == "1"
def harness(sym):
    ft = FakeTime(sym, SYMCLOCK); TK.time = ft
    bb = SymBB(sym, F)
    d_res = sym.real("d_res", 0, 1); d_start = sym.real("d_start", 0, 1); d_stop = sym.real("d_stop", 0, 1); d_cas = sym.real("d_cas", 0, 1)
    be = UserBlackboxBackend(blackbox=bb, elapsed_time_attr="et", max_resource_attr="epochs", support_checkpointing=CKPT,
        simulator_config=SimulatorConfig(delay_on_trial_result=d_res, delay_complete_after_final_report=1.0, delay_complete_after_stop=d_cas, delay_start=d_start, delay_stop=d_stop))
    be.set_path(results_root=os.environ["SYNETUNE_FOLDER"], tuner_name="p")
    tk = be.time_keeper; tk.start_of_time()
    pause_at = 1
    # run 1: up to level pause_at
    tr = be.start_trial({"c": 0, "epochs": pause_at})
    t_sched1 = tk.time()
    got = []
    for poll in range(3):
        tk.advance(sym.real(f"sleep{poll}", 0, 30))
        st, res = be.fetch_status_results([0])
        got.extend(res)
        if got: break
    if not got: raise IgnoreAttempt()
    assert [r["epoch"] for _, r in got] == [1]
    e1 = bb.tab[0][1]; e1r = e1 if e1 > 0.01 else 0.01
    assert got[0][1][ST_TUNER_TIME] == t_sched1 + d_start + e1r + d_res
    assert got[0][1]["loss"] == bb.tab[0][0]
    be.pause_trial(0, result=got[0][1])
    t_before = tk.time()
    be.resume_trial(0, new_config={"c": 0, "epochs": F})
    t_sched2 = tk.time()
    assert t_sched2 >= t_before
    got2 = []
    for poll in range(F + 2):
        tk.advance(sym.real(f"sleepb{poll}", 0, 30))
        st, res = be.fetch_status_results([0])
        got2.extend(res)
    levels = [r["epoch"] for _, r in got2]
    exp_levels = list(range(pause_at + 1, F + 1)) if CKPT else list(range(1, F + 1))
    assert levels == exp_levels[:len(levels)]
    # expected elapsed since resume point, after the documented repair
    prev = None
    for (_, r), lv in zip(got2, exp_levels):
        raw = bb.tab[lv - 1][1] - (bb.tab[pause_at - 1][1] if CKPT else 0)
        if prev is None: rep = raw if raw > 0.01 else 0.01
        else: rep = raw if raw > prev + 0.01 else prev + 0.01
        prev = rep
        assert r[ST_TUNER_TIME] == t_sched2 + d_start + rep + d_res, lv
        assert r["loss"] == bb.tab[lv - 1][0]
st = explore(harness, timeout=int(sys.argv[4]))
print(str(st)[:1500])
