"""log/exp abstraction: fresh reals + instantiated monotone-inverse axioms against all earlier terms"""
import numpy as _np, z3
from crosshair.core import NoTracing
from crosshair.statespace import context_statespace
from crosshair.libimpl.builtinslib import RealBasedSymbolicFloat, SymbolicNumberAble
from shim import NumpyShim, _issym

class _Terms:
    def __init__(self, *a): self.pairs = []; self.n = 0   # (x_expr, y_expr) with y = log x
def _z(v):
    return v.var if _issym(v) else z3.RealVal(float(v))
def _reg(sp, x, y):
    t = sp.extra(_Terms)
    for (x2, y2) in t.pairs:
        sp.add(z3.And((x < x2) == (y < y2), (x == x2) == (y == y2)))
    t.pairs.append((x, y))
def _log(self, v):
    if not _issym(v):
        r = _np.log(v)
        with NoTracing():
            try:
                sp = context_statespace(); _reg(sp, z3.RealVal(float(v)), z3.RealVal(float(r)))
            except Exception: pass
        return r
    with NoTracing():
        sp = context_statespace(); t = sp.extra(_Terms); t.n += 1
        y = RealBasedSymbolicFloat(f"log{t.n}")
        sp.add(v.var > 0)
        _reg(sp, v.var, y.var)
        return y
def _exp(self, v):
    if not _issym(v):
        r = _np.exp(v)
        with NoTracing():
            try:
                sp = context_statespace(); _reg(sp, z3.RealVal(float(r)), z3.RealVal(float(v)))
            except Exception: pass
        return r
    with NoTracing():
        sp = context_statespace(); t = sp.extra(_Terms); t.n += 1
        x = RealBasedSymbolicFloat(f"exp{t.n}")
        sp.add(x.var > 0)
        _reg(sp, x.var, v.var)
        return x
NumpyShim.log = _log; NumpyShim.exp = _exp
