"""E1 driver: path-exhaustive symbolic execution of real Python code on top of
CrossHair's tracer / symbolic values / search tree, with an SMT solver (z3) deciding every
branch.  See DESIGN.md section 2.1.

A *harness* is a function ``h(sym, **params)``.  It creates its inputs through ``sym``
(``sym.int / sym.real / sym.bool``), drives the real repo code, and reports problems with
``sym.violation(code, msg)`` (or any escaping exception).  The same harness function is
executed in two ways:

* symbolically (``explore``): inputs are z3 variables; every feasible path is run once;
* concretely (``run_concrete``): inputs come from a solver model; no tracing.  Used to
  replay counterexamples / reachability witnesses against the un-instrumented code.
"""
import os
import sys
import time
import json
import hashlib
import traceback
from fractions import Fraction
from time import process_time

import z3

from crosshair.core import Patched, NoTracing, ResumedTracing
from crosshair.core_and_libs import standalone_statespace  # noqa: F401  (registers lib patches)
import crosshair.statespace as _ss
from crosshair.statespace import (
    StateSpace,
    StateSpaceContext,
    RootNode,
    CallAnalysis,
    VerificationStatus,
    context_statespace,
)
from crosshair.util import (
    IgnoreAttempt,
    UnexploredPath,
    NotDeterministic,
    CrossHairInternal,
)
from crosshair.tracers import COMPOSITE_TRACER
from crosshair.libimpl.builtinslib import (
    ModelingDirector,
    SymbolicInt,
    SymbolicBool,
    RealBasedSymbolicFloat,
    SymbolicNumberAble,
)
import crosshair.opcode_intercept as _oi

try:
    from crosshair.core import suspected_proxy_intolerance_exception
except Exception:  # pragma: no cover
    def suspected_proxy_intolerance_exception(e):
        return False


# ----------------------------------------------------------------------------------
# exceptions used for control flow between harness and driver.  BaseException so that
# ``except Exception`` blocks in the code under test cannot swallow them.
# ----------------------------------------------------------------------------------
class Violation(BaseException):
    def __init__(self, code, msg=""):
        BaseException.__init__(self, code, msg)
        self.code = code
        self.msg = msg


class KnownReached(BaseException):
    """a tolerated (listed in known_findings.json) violation was reached; path ends"""

    def __init__(self, code):
        BaseException.__init__(self, code)
        self.code = code


class HarnessError(Exception):
    pass


# ----------------------------------------------------------------------------------
# stub `fmt`: formatting a symbolic number gives "<sym>" instead of realizing it
# ----------------------------------------------------------------------------------
def is_sym(v):
    with NoTracing():
        return SymbolicNumberAble in type(v).__mro__


def _has_sym(v, depth=0):
    """a symbolic number, or a plain container holding one (CrossHair's own formatting deep-realizes those)"""
    if is_sym(v):
        return True
    if depth > 4:
        return False
    t = type(v)
    if t is dict:
        return any(_has_sym(x, depth + 1) for x in v.values())
    if t in (list, tuple):
        return any(_has_sym(x, depth + 1) for x in v)
    return False


def _fmt(self, fmt):
    if _has_sym(self.value):
        self.formatted = "<sym>"
    else:
        self.formatted = format(self.value, fmt)
    return ""


def _str(self):
    if _has_sym(self.value):
        self.formatted = "<sym>"
    else:
        self.formatted = str(self.value)
    return ""


_oi.FormatStashingValue.__format__ = _fmt
_oi.FormatStashingValue.__str__ = _str


# ----------------------------------------------------------------------------------
# solver statistics: wrap crosshair.statespace.solver_is_sat
# ----------------------------------------------------------------------------------
SOLVER = dict(queries=0, time=0.0, unknown=0)
_orig_solver_is_sat = _ss.solver_is_sat


def _timed_solver_is_sat(solver, *exprs):
    t0 = time.perf_counter()
    try:
        return _orig_solver_is_sat(solver, *exprs)
    except UnexploredPath:
        SOLVER["unknown"] += 1
        raise
    finally:
        SOLVER["queries"] += 1
        SOLVER["time"] += time.perf_counter() - t0


_ss.solver_is_sat = _timed_solver_is_sat

REALIZATIONS = dict(n=0, sites={})
_orig_find_model_value = StateSpace.find_model_value


def _counting_find_model_value(self, expr, *a, **k):
    REALIZATIONS["n"] += 1
    try:
        fr = sys._getframe(1)
        site = None
        depth = 0
        while fr is not None and depth < 40:
            fn = fr.f_code.co_filename
            if "/crosshair/" not in fn and "/symx/" not in fn:
                site = f"{os.path.basename(fn)}:{fr.f_lineno}"
                break
            fr = fr.f_back
            depth += 1
        if site:
            REALIZATIONS["sites"][site] = REALIZATIONS["sites"].get(site, 0) + 1
    except Exception:
        pass
    return _orig_find_model_value(self, expr, *a, **k)


StateSpace.find_model_value = _counting_find_model_value


# ----------------------------------------------------------------------------------
# Sym: input factory
# ----------------------------------------------------------------------------------
def _frac(x):
    if isinstance(x, (int, float)):
        return x
    return x


class Sym:
    """factory for harness inputs.  ``concrete`` = dict name -> value (replay mode)."""

    def __init__(self, concrete=None, pins=None, tolerate=()):
        self.concrete = concrete
        self.symbolic = concrete is None
        self.pins = pins or {}
        self.tolerate = set(tolerate)
        self.vars = {}        # name -> symbolic value (symbolic mode) / value (concrete)
        self.kinds = {}       # name -> ("int", lo, hi) ...
        self.goals = set()
        self.trace = []       # abstract events (concrete strings only)
        self.known = []
        self.missing = []     # names not in the concrete model (replay)
        self.is_fragile = False

    # -- inputs ---------------------------------------------------------------
    def int(self, name, lo, hi):
        self.kinds[name] = ("int", lo, hi)
        if not self.symbolic:
            if name in self.concrete:
                v = int(self.concrete[name])
            else:
                v = lo
                self.missing.append(name)
            if not (lo <= v <= hi):
                raise IgnoreAttempt("range")
            self.vars[name] = v
            return v
        with NoTracing():
            sp = context_statespace()
            v = SymbolicInt(name)
            sp.add(v.var >= lo)
            sp.add(v.var <= hi)
            if name in self.pins:
                pv = int(self.pins[name])
                if not (lo <= pv <= hi):
                    raise IgnoreAttempt("pin outside range")
                sp.add(v.var == pv)
            self.vars[name] = v
            return v

    def choice(self, name, n):
        """symbolic index in range(n), returned as a concrete python int (forks n ways)"""
        if n <= 1:
            return 0
        c = self.int(name, 0, n - 1)
        if not self.symbolic:
            return c
        for i in range(n - 1):
            if c == i:
                return i
        return n - 1

    def real(self, name, lo=None, hi=None):
        self.kinds[name] = ("real", lo, hi)
        if not self.symbolic:
            if name in self.concrete:
                v = float(Fraction(self.concrete[name]))
            else:
                v = float(lo if lo is not None else 0.0)
                self.missing.append(name)
            self.vars[name] = v
            return v
        with NoTracing():
            sp = context_statespace()
            v = RealBasedSymbolicFloat(name)
            if lo is not None:
                sp.add(v.var >= lo)
            if hi is not None:
                sp.add(v.var <= hi)
            self.vars[name] = v
            return v

    def bool(self, name):
        self.kinds[name] = ("bool",)
        if not self.symbolic:
            if name in self.concrete:
                v = bool(self.concrete[name])
            else:
                v = False
                self.missing.append(name)
            self.vars[name] = v
            return v
        with NoTracing():
            v = SymbolicBool(name)
            if name in self.pins:
                context_statespace().add(v.var == bool(self.pins[name]))
            self.vars[name] = v
        # fork here so that the harness sees a concrete python bool
        return True if v else False

    def split_on(self, name, cond):
        """fork on a (symbolic) condition; a pin on `name` keeps only one side (used to cut a
        search tree into independent sub-trees along a predicate over real inputs)"""
        b = True if cond else False
        if self.symbolic and name in self.pins and bool(self.pins[name]) != b:
            raise IgnoreAttempt("split")
        return b

    # -- control ----------------------------------------------------------------
    def assume(self, cond):
        if not cond:
            raise IgnoreAttempt("assume")

    def goal(self, name):
        self.goals.add(name)

    def fragile(self):
        """the path took a decision inside a round-off tolerance band: its model may replay
        differently in IEEE doubles, so it is not used as a witness / preferred counterexample"""
        self.is_fragile = True

    def event(self, text):
        self.trace.append(text)

    def violation(self, code, msg=""):
        if code in self.tolerate:
            self.known.append(code)
            raise KnownReached(code)
        raise Violation(code, msg)

    def check(self, cond, code, msg=""):
        if not cond:
            self.violation(code, msg)

    def add(self, z3expr):
        """assert a raw z3 constraint (symbolic mode only)"""
        if self.symbolic:
            with NoTracing():
                context_statespace().add(z3expr)

    def pin(self, value):
        """give a symbolic number its model value without branching (for data that has to
        cross a C boundary such as pickling); returns a concrete python number"""
        if not self.symbolic or not is_sym(value):
            return value
        with NoTracing():
            sp = context_statespace()
            r = sp.solver.check()
            if r != z3.sat:
                raise UnexploredPath("pin: solver " + str(r))
            mv = sp.solver.model().eval(value.var, model_completion=True)
            sp.add(value.var == mv)
            return _model_to_py(mv)


def _model_to_py(mv):
    if z3.is_int_value(mv):
        return mv.as_long()
    if z3.is_rational_value(mv):
        return float(Fraction(mv.numerator_as_long(), mv.denominator_as_long()))
    if z3.is_true(mv):
        return True
    if z3.is_false(mv):
        return False
    if z3.is_algebraic_value(mv):
        return float(mv.approx(20).as_fraction())
    raise HarnessError("cannot convert model value %r" % (mv,))


def _model_to_json(mv):
    if z3.is_int_value(mv):
        return mv.as_long()
    if z3.is_rational_value(mv):
        return "%d/%d" % (mv.numerator_as_long(), mv.denominator_as_long())
    if z3.is_true(mv):
        return True
    if z3.is_false(mv):
        return False
    if z3.is_algebraic_value(mv):
        fr = mv.approx(20).as_fraction()
        return "%d/%d" % (fr.numerator, fr.denominator)
    raise HarnessError("cannot convert model value %r" % (mv,))


def extract_model(space, sym, dyadic_bits=16):
    """model of all harness inputs on the current path, without touching the search tree.
    Real inputs are preferably given dyadic values (exact doubles, k/2^16), so that the concrete
    replay in IEEE doubles does not sit on a comparison boundary by accident."""
    solver = space.solver
    reals = [(n, v) for n, v in sym.vars.items() if sym.kinds.get(n, ("",))[0] == "real"]
    m = None
    if reals:
        solver.push()
        try:
            for n, v in reals:
                i = z3.Int("dy!" + n)
                solver.add(v.var * (1 << dyadic_bits) == z3.ToReal(i))
            if solver.check() == z3.sat:
                m = solver.model()
        except z3.Z3Exception:
            m = None
        finally:
            solver.pop()
    if m is None:
        r = solver.check()
        if r != z3.sat:
            return None
        m = solver.model()
    out = {}
    for name, v in sym.vars.items():
        out[name] = _model_to_json(m.eval(v.var, model_completion=True))
    return out


# ----------------------------------------------------------------------------------
# exploration
# ----------------------------------------------------------------------------------
def explore(harness, params=None, pins=None, tolerate=(), budget_s=600.0,
            per_path_timeout=30.0, max_fail=5, max_paths=10 ** 9, want_goals=()):
    """run `harness` on every feasible path.  Returns a stats dict (json-able)."""
    params = params or {}
    root = RootNode()
    t0 = time.time()
    q0 = dict(SOLVER)
    r0 = REALIZATIONS["n"]
    REALIZATIONS["sites"] = {}
    st = dict(paths=0, ok=0, ignored=0, unknown=0, known=0, failed=0, exhausted=False,
              decisions=0, fails=[], goals={}, goals_seen={}, known_codes={}, error=None, samples=[],
              unknown_reasons={})
    seen_sig = set()
    cand_count, robust_count = {}, {}
    want_goals = set(want_goals)
    while st["paths"] < max_paths:
        if time.time() - t0 > budget_s:
            break
        start = process_time()
        space = StateSpace(execution_deadline=start + per_path_timeout,
                           model_check_timeout=per_path_timeout / 2, search_root=root)
        sym = Sym(pins=pins, tolerate=tolerate)
        outcome = None
        info = None
        with Patched(), COMPOSITE_TRACER, NoTracing(), StateSpaceContext(space):
            space.extra(ModelingDirector).global_representations[float] = RealBasedSymbolicFloat
            try:
                try:
                    with ResumedTracing():
                        harness(sym, **params)
                    outcome = "ok"
                except IgnoreAttempt:
                    outcome = "ignored"
                except KnownReached as e:
                    outcome = "known"
                    info = e.code
                except Violation as e:
                    outcome = "fail"
                    info = (e.code, _safe_str(e.msg), "")
                except (NotDeterministic, z3.Z3Exception, CrossHairInternal) as e:
                    st["error"] = "%s: %s\n%s" % (type(e).__name__, e, traceback.format_exc()[-1500:])
                    outcome = "error"
                except UnexploredPath as e:
                    outcome = "unknown"
                    info = type(e).__name__
                except Exception as e:
                    if suspected_proxy_intolerance_exception(e):
                        outcome = "unknown"
                        info = "proxy-intolerance:" + type(e).__name__
                    else:
                        tb = traceback.extract_tb(sys.exc_info()[2])
                        where = ""
                        for fr in reversed(tb):
                            if "/crosshair/" not in fr.filename:
                                where = _where(fr)
                                break
                        outcome = "fail"
                        info = ("EXC:" + type(e).__name__ + "@" + where, _safe_str(e),
                                "".join(traceback.format_list(tb[-4:])))
            except UnexploredPath as e:  # raised while leaving ResumedTracing etc.
                outcome = "unknown"
                info = type(e).__name__
            if outcome == "error":
                break
            st["paths"] += 1
            st["decisions"] += len(space.choices_made)
            bubble = VerificationStatus.CONFIRMED
            if outcome in ("ok", "known") and space.solver.check() == z3.unsat:
                # the path condition became contradictory on the way (forced branches): not a real path
                outcome = "ignored"
                st["infeasible_ok"] = st.get("infeasible_ok", 0) + 1
            if outcome == "ok":
                st["ok"] += 1
            elif outcome == "ignored":
                st["ignored"] += 1
                bubble = None
            elif outcome == "known":
                st["known"] += 1
                st["known_codes"][info] = st["known_codes"].get(info, 0) + 1
            elif outcome == "unknown":
                st["unknown"] += 1
                st["unknown_reasons"][info] = st["unknown_reasons"].get(info, 0) + 1
                bubble = VerificationStatus.UNKNOWN
            elif outcome == "fail":
                code, msg, tb = info
                if space.solver.check() == z3.unsat:
                    # path condition infeasible (e.g. contradictory pins): not a path at all
                    st["ignored"] += 1
                    bubble = None
                    code = None
                else:
                    st["failed"] += 1
                if code is not None:
                    ncand = cand_count.get(code, 0)
                    nrobust = robust_count.get(code, 0)
                    want = (code in seen_sig and ((ncand < 3) or (not sym.is_fragile and nrobust < 2))) or \
                           (code not in seen_sig and len(seen_sig) < max_fail)
                    if want:
                        seen_sig.add(code)
                        try:
                            model = extract_model(space, sym)
                        except Exception as e:  # noqa
                            model = None
                        cand_count[code] = ncand + 1
                        if not sym.is_fragile:
                            robust_count[code] = nrobust + 1
                        st["fails"].append(dict(code=code, msg=msg[:600], tb=tb[-1200:], model=model,
                                                trace=list(sym.trace)[-60:], fragile=sym.is_fragile))
            if outcome in ("ok", "known"):
                for g in sym.goals:
                    st["goals_seen"][g] = st["goals_seen"].get(g, 0) + 1
                newgoals = [] if sym.is_fragile else [g for g in sym.goals if len(st["goals"].get(g, [])) < 2]
                if newgoals or len(st["samples"]) < 3:
                    try:
                        model = extract_model(space, sym)
                    except Exception:
                        model = None
                    if model is not None:
                        for g in newgoals:
                            st["goals"].setdefault(g, []).append(model)
                        if len(st["samples"]) < 3:
                            st["samples"].append(dict(inputs=model, trace=list(sym.trace)[-40:]))
            try:
                _a, exhausted = space.bubble_status(CallAnalysis(bubble))
            except Exception as e:
                st["error"] = "bubble_status: %r" % (e,)
                break
        if exhausted:
            st["exhausted"] = True
            break
    st["wall"] = time.time() - t0
    st["solver_queries"] = SOLVER["queries"] - q0["queries"]
    st["solver_s"] = SOLVER["time"] - q0["time"]
    st["solver_unknown"] = SOLVER["unknown"] - q0["unknown"]
    st["realizations"] = REALIZATIONS["n"] - r0
    st["realization_sites"] = dict(sorted(REALIZATIONS["sites"].items(), key=lambda kv: -kv[1])[:8])
    st["missing_goals"] = sorted(want_goals - set(st["goals"]))
    return st


def _safe_str(x):
    try:
        with NoTracing():
            return str(x)[:600]
    except BaseException as e:  # noqa
        return "<unprintable %s>" % type(e).__name__


# ----------------------------------------------------------------------------------
# concrete execution (replay)
# ----------------------------------------------------------------------------------
_VERIF_DIR = os.path.dirname(os.path.dirname(os.path.abspath(__file__)))


def _where(fr):
    """location of an unexpected exception; one raised by a line of the verification machinery itself (harness, stub,
    monitor: e.g. a private attribute it reads no longer exists) is marked, the runner reports it as a harness error and
    never as a violation of the property"""
    own = os.path.abspath(fr.filename).startswith(_VERIF_DIR + os.sep) and "/.pydeps/" not in fr.filename
    return "%s%s:%d" % ("harness:" if own else "", os.path.basename(fr.filename), fr.lineno)


def run_concrete(harness, params, model, tolerate=(), profile=False):
    """run the harness on concrete inputs, no tracing, real numpy etc.
    returns dict(outcome, code, msg, goals, trace, functions)"""
    sym = Sym(concrete=dict(model), tolerate=tolerate)
    funcs = set()
    if profile:
        def prof(frame, event, arg):
            if event == "call":
                fn = frame.f_code.co_filename
                if fn.startswith("/repo/"):
                    funcs.add("%s::%s" % (fn[len("/repo/"):], frame.f_code.co_qualname))
        sys.setprofile(prof)
    res = dict(outcome="ok", code=None, msg="")
    try:
        harness(sym, **(params or {}))
    except IgnoreAttempt:
        res["outcome"] = "ignored"
    except KnownReached as e:
        res.update(outcome="known", code=e.code)
    except Violation as e:
        res.update(outcome="fail", code=e.code, msg=str(e.msg)[:600])
    except Exception as e:
        tb = traceback.extract_tb(sys.exc_info()[2])
        where = ""
        for fr in reversed(tb):
            where = _where(fr)
            break
        res.update(outcome="fail", code="EXC:" + type(e).__name__ + "@" + where, msg=str(e)[:600],
                   tb="".join(traceback.format_list(tb[-4:])))
    finally:
        if profile:
            sys.setprofile(None)
    res["goals"] = sorted(sym.goals)
    res["trace"] = sym.trace[-80:]
    res["functions"] = sorted(funcs)
    res["missing_inputs"] = sym.missing
    return res


def self_test():
    """a known-valid and a known-refutable toy obligation; raises HarnessError on mismatch"""
    def valid(sym):
        x = sym.real("x", -5, 5)
        y = sym.real("y", -5, 5)
        m = x if x <= y else y
        sym.check(m <= x and m <= y, "toy.min")

    def refutable(sym):
        x = sym.int("x", 0, 10)
        y = sym.int("y", 0, 10)
        sym.check(not (x + y == 7 and x - y == 3), "toy.cex")

    a = explore(valid, budget_s=20)
    if not (a["exhausted"] and a["failed"] == 0 and a["unknown"] == 0 and a["paths"] >= 2):
        raise HarnessError("self-test (valid toy) failed: %r" % (a,))
    b = explore(refutable, budget_s=20)
    if not (b["failed"] >= 1 and b["fails"][0]["model"] == {"x": 5, "y": 2}):
        raise HarnessError("self-test (refutable toy) failed: %r" % (b,))
    c = run_concrete(refutable, {}, {"x": 5, "y": 2})
    if c["outcome"] != "fail":
        raise HarnessError("self-test (replay) failed: %r" % (c,))
    return dict(valid_paths=a["paths"], refutable_paths=b["paths"])
