"""environment stubs of the E1 engine (DESIGN.md 2.1).  Each stub is part of the claim and is
named in the evidence of the obligations that use it."""
import math
import importlib
import numpy as _np
import z3

from crosshair.core import NoTracing
from crosshair.statespace import context_statespace, optional_context_statespace
from crosshair.libimpl.builtinslib import RealBasedSymbolicFloat, SymbolicNumberAble, SymbolicInt


def is_sym(v):
    with NoTracing():
        return SymbolicNumberAble in type(v).__mro__


def any_sym(*vs):
    for v in vs:
        if is_sym(v):
            return True
    return False


# ----------------------------------------------------------------------------------
# npshim
# ----------------------------------------------------------------------------------
class SymArr:
    """small 1-d array of python / symbolic scalars (what np.array([x]) becomes when x is symbolic)"""

    def __init__(self, items):
        self.items = list(items)

    def item(self):
        assert len(self.items) == 1
        return self.items[0]

    def __getitem__(self, i):
        if isinstance(i, slice):
            return SymArr(self.items[i])
        return self.items[i]

    def __len__(self):
        return len(self.items)

    def __iter__(self):
        return iter(self.items)

    def reshape(self, *a):
        return self

    def flatten(self):
        return self

    def tolist(self):
        return list(self.items)

    @property
    def size(self):
        return len(self.items)

    @property
    def shape(self):
        return (len(self.items),)

    @property
    def ndim(self):
        return 1


class _Terms:
    """per-path registry of (x, log x) pairs for the log/exp abstraction"""

    def __init__(self, *a):
        self.pairs = []
        self.n = 0


def _z(v):
    return v.var if is_sym(v) else z3.RealVal(repr(float(v)))


def _reg_concrete(sp, xf, yf):
    """anchor from a concrete numpy call (doubles).  Doubles do not satisfy exp(log x) == x exactly, so an anchor is only
    added when it is strictly monotone-consistent with the anchors already present (otherwise the axioms would be
    contradictory and every path vacuous)"""
    t = sp.extra(_Terms)
    if not hasattr(t, "anchors"):
        t.anchors = []
    for (x2, y2) in t.anchors:
        if not ((xf < x2) == (yf < y2) and (xf == x2) == (yf == y2)):
            return
    t.anchors.append((xf, yf))
    _reg(sp, _exact(xf), _exact(yf))


def _reg(sp, x, y):
    """y = log x: instantiate strict monotonicity + injectivity against all earlier pairs"""
    t = sp.extra(_Terms)
    for (x2, y2) in t.pairs:
        sp.add(z3.And((x < x2) == (y < y2), (x == x2) == (y == y2)))
    t.pairs.append((x, y))


def _exact(f):
    """z3 value of a python float, converted the same way CrossHair converts float literals
    (z3.RealVal(float) = the shortest decimal repr), so that shim terms and interpreter terms agree"""
    return z3.RealVal(float(f))


class NumpyShim:
    """forwards to numpy unless an argument is a symbolic scalar"""

    def __getattr__(self, name):
        return getattr(_np, name)

    # ---- elementwise scalar primitives --------------------------------------------
    def clip(self, x, lo, hi, *a, **k):
        if any_sym(x, lo, hi):
            if x < lo:
                return lo
            if x > hi:
                return hi
            return x
        return _np.clip(x, lo, hi, *a, **k)

    def minimum(self, a, b):
        if any_sym(a, b):
            return a if a <= b else b
        return _np.minimum(a, b)

    def maximum(self, a, b):
        if any_sym(a, b):
            return a if a >= b else b
        return _np.maximum(a, b)

    def abs(self, x):
        if is_sym(x):
            return x if x >= 0 else -x
        return _np.abs(x)

    def array(self, x, *a, **k):
        if isinstance(x, (list, tuple)) and any(is_sym(e) for e in x):
            return SymArr(x)
        if is_sym(x):
            return x
        if isinstance(x, SymArr):
            return x
        return _np.array(x, *a, **k)

    def asarray(self, x, *a, **k):
        return self.array(x, *a, **k)

    def round(self, x, *a):
        if is_sym(x):
            return round(x)
        return _np.round(x, *a)

    def rint(self, x):
        if is_sym(x):
            return round(x)
        return _np.rint(x)

    def floor(self, x):
        if is_sym(x):
            return math.floor(x)
        return _np.floor(x)

    def ceil(self, x):
        if is_sym(x):
            return math.ceil(x)
        return _np.ceil(x)

    def isnan(self, x):
        if is_sym(x):
            return x != x
        return _np.isnan(x)

    def isinf(self, x):
        if is_sym(x):
            return False    # real-based symbolic floats are finite
        return _np.isinf(x)

    def isfinite(self, x):
        if is_sym(x):
            return True
        return _np.isfinite(x)

    def isclose(self, a, b, *args, **k):
        if any_sym(a, b):
            rtol = k.get("rtol", 1e-5)
            atol = k.get("atol", 1e-8)
            d = a - b
            d = d if d >= 0 else -d
            bb = b if b >= 0 else -b
            return d <= atol + rtol * bb
        return _np.isclose(a, b, *args, **k)

    def sign(self, x):
        if is_sym(x):
            return 1 if x > 0 else (-1 if x < 0 else 0)
        return _np.sign(x)

    def mean(self, x, *a, **k):
        if isinstance(x, (list, tuple, SymArr)) and any(is_sym(e) for e in x):
            tot = 0
            for e in x:
                tot = tot + e
            return tot / len(x)
        return _np.mean(x, *a, **k)

    def searchsorted(self, arr, v, side="left", **k):
        many = isinstance(v, (list, tuple, SymArr))
        if is_sym(v) or (many and any(is_sym(e) for e in v)) or (isinstance(arr, (list, tuple, SymArr)) and any(is_sym(e) for e in arr)):
            assert not k

            def count(vi):
                return sum(1 for e in arr if (e < vi if side == "left" else e <= vi))
            return SymArr([count(vi) for vi in v]) if many else count(v)
        return _np.searchsorted(arr, v, side=side, **k)

    def insert(self, arr, index, v, *a, **k):
        if is_sym(v) or isinstance(arr, SymArr):
            items = list(arr)
            items.insert(int(index), v)
            return SymArr(items)
        return _np.insert(arr, index, v, *a, **k)

    # ---- transcendental functions: fresh reals + instantiated axioms --------------------
    def log(self, v):
        if not is_sym(v):
            r = _np.log(v)
            with NoTracing():
                sp = optional_context_statespace()
                if sp is not None and _np.ndim(v) == 0 and v > 0:
                    _reg_concrete(sp, float(v), float(r))
            return r
        with NoTracing():
            sp = context_statespace()
            t = sp.extra(_Terms)
            t.n += 1
            y = RealBasedSymbolicFloat("log%d" % t.n)
            sp.add(v.var > 0)
            sp.add((v.var < 1) == (y.var < 0))
            sp.add((v.var == 1) == (y.var == 0))
            _reg(sp, v.var, y.var)
            return y

    def exp(self, v):
        if not is_sym(v):
            r = _np.exp(v)
            with NoTracing():
                sp = optional_context_statespace()
                if sp is not None and _np.ndim(v) == 0:
                    _reg_concrete(sp, float(r), float(v))
            return r
        with NoTracing():
            sp = context_statespace()
            t = sp.extra(_Terms)
            t.n += 1
            x = RealBasedSymbolicFloat("exp%d" % t.n)
            sp.add(x.var > 0)
            sp.add((x.var < 1) == (v.var < 0))
            sp.add((x.var == 1) == (v.var == 0))
            _reg(sp, x.var, v.var)
            return x


SHIM = NumpyShim()


def shim_modules(names):
    """replace the module-global ``np`` of the named repo modules by the shim"""
    for n in names:
        m = importlib.import_module(n)
        if getattr(m, "np", None) is not SHIM:
            m.np = SHIM


class CopyShim:
    """stand-in for the ``copy`` module of a repo module: ``copy.deepcopy`` of a symbolic number goes through
    ``__reduce_ex__`` and REALIZES it (the path is then concrete in that value and the exploration enumerates values).
    Containers are copied recursively, (immutable) symbolic numbers and str / int / float / bool / None leaves are shared;
    anything else is handed to the real ``copy.deepcopy``."""

    def deepcopy(self, x, memo=None):
        import copy as _copy
        if isinstance(x, dict) and type(x) is dict:
            return {k: self.deepcopy(v) for k, v in x.items()}
        if type(x) is list:
            return [self.deepcopy(v) for v in x]
        if type(x) is tuple:
            return tuple(self.deepcopy(v) for v in x)
        if is_sym(x) or x is None or type(x) in (int, float, bool, str):
            return x
        return _copy.deepcopy(x)

    def copy(self, x):
        import copy as _copy
        return _copy.copy(x)


def shim_copy(names):
    for n in names:
        importlib.import_module(n).copy = CopyShim()


def shim_selftest():
    """translation validation of the shim on concrete arguments (must agree with numpy)"""
    n = 0
    s = NumpyShim()
    for x in (-2.5, -1.0, -0.5, 0.0, 0.49, 0.5, 1.5, 2.5, 7.0):
        assert s.clip(x, -1.0, 2.0) == _np.clip(x, -1.0, 2.0); n += 1
        assert s.round(x) == _np.round(x); n += 1
        assert s.rint(x) == _np.rint(x); n += 1
        assert s.floor(x) == _np.floor(x) and s.ceil(x) == _np.ceil(x); n += 2
        assert s.abs(x) == _np.abs(x) and s.sign(x) == _np.sign(x); n += 2
        assert s.minimum(x, 0.3) == _np.minimum(x, 0.3) and s.maximum(x, 0.3) == _np.maximum(x, 0.3); n += 2
        assert bool(s.isnan(x)) == bool(_np.isnan(x)); n += 1
        assert bool(s.isclose(x, x + 1e-9)) == bool(_np.isclose(x, x + 1e-9)); n += 1
    assert s.mean([1.0, 2.0, 4.0]) == _np.mean([1.0, 2.0, 4.0]); n += 1
    for v in (0.0, 1.0, 1.5, 2.0, 9.0):
        assert s.searchsorted([1.0, 2.0, 2.0, 3.0], v) == _np.searchsorted([1.0, 2.0, 2.0, 3.0], v); n += 1
    return n


# ----------------------------------------------------------------------------------
# clock stub
# ----------------------------------------------------------------------------------
class FixedClock:
    """deterministic clock: every call advances by `step` seconds"""

    def __init__(self, start=1000.0, step=0.0):
        self.now = start
        self.step = step

    def time(self):
        self.now += self.step
        return self.now

    perf_counter = time


class _TimeModule:
    """stands in for the ``time`` module inside selected repo modules"""

    def __init__(self, clock, real):
        self._clock = clock
        self._real = real

    def time(self):
        return self._clock.time()

    def perf_counter(self):
        return self._clock.time()

    def sleep(self, s):
        self._clock.now += 0.0

    def __getattr__(self, n):
        return getattr(self._real, n)


def stub_time(names, clock):
    import time as _time
    for n in names:
        m = importlib.import_module(n)
        if hasattr(m, "time"):
            m.time = _TimeModule(clock, _time)


# ----------------------------------------------------------------------------------
# SymMat / SymRow carrier (C19): an [N, D] matrix of symbolic reals.  Comparisons return
# *concrete* numpy bool arrays (each entry decided by a solver fork); all mask logic stays in
# real numpy.
# ----------------------------------------------------------------------------------
class SymRow:
    def __init__(self, vals):
        self.vals = list(vals)

    def _cmp(self, other, op):
        out = _np.zeros((len(other.rows), len(self.vals)), dtype=bool)
        for i, r in enumerate(other.rows):
            for j, v in enumerate(r.vals):
                out[i, j] = True if op(self.vals[j], v) else False
        return out

    def __le__(self, other):
        return self._cmp(other, lambda a, b: a <= b)

    def __lt__(self, other):
        return self._cmp(other, lambda a, b: a < b)

    def __ge__(self, other):
        return self._cmp(other, lambda a, b: a >= b)

    def __gt__(self, other):
        return self._cmp(other, lambda a, b: a > b)

    def __eq__(self, other):
        if not isinstance(other, SymMat):
            return NotImplemented
        return self._cmp(other, lambda a, b: a == b)

    def __ne__(self, other):
        if not isinstance(other, SymMat):
            return NotImplemented
        return self._cmp(other, lambda a, b: a != b)

    __hash__ = None

    def __len__(self):
        return len(self.vals)

    def __iter__(self):
        return iter(self.vals)


class SymMat:
    def __init__(self, rows):
        self.rows = [r if isinstance(r, SymRow) else SymRow(r) for r in rows]

    @property
    def shape(self):
        return (len(self.rows), len(self.rows[0].vals) if self.rows else 0)

    def __len__(self):
        return len(self.rows)

    def __iter__(self):
        return iter(self.rows)

    def __getitem__(self, idx):
        if isinstance(idx, tuple):
            r, c = idx
            assert isinstance(r, slice) and r == slice(None)
            return SymArr([row.vals[c] for row in self.rows])
        with NoTracing():
            idx = _np.asarray(idx)
        if idx.dtype == bool:
            return SymMat([r for r, m in zip(self.rows, idx) if m])
        if idx.ndim == 0:
            return self.rows[int(idx)]
        return SymMat([self.rows[int(i)] for i in idx])

    # matrix (op) row: the reflected form of SymRow (op') matrix, and matrix (op) matrix elementwise
    def _cmp(self, other, op):
        if isinstance(other, SymRow):
            out = _np.zeros(self.shape, dtype=bool)
            for i, r in enumerate(self.rows):
                for j, v in enumerate(r.vals):
                    out[i, j] = True if op(v, other.vals[j]) else False
            return out
        if isinstance(other, SymMat):
            assert other.shape == self.shape
            out = _np.zeros(self.shape, dtype=bool)
            for i, r in enumerate(self.rows):
                for j, v in enumerate(r.vals):
                    out[i, j] = True if op(v, other.rows[i].vals[j]) else False
            return out
        return NotImplemented

    def __le__(self, other):
        return self._cmp(other, lambda a, b: a <= b)

    def __lt__(self, other):
        return self._cmp(other, lambda a, b: a < b)

    def __ge__(self, other):
        return self._cmp(other, lambda a, b: a >= b)

    def __gt__(self, other):
        return self._cmp(other, lambda a, b: a > b)

    __hash__ = None

    def __mul__(self, w):
        w = _np.asarray(w)
        if w.ndim == 2:
            w = w[0]
        d = self.shape[1]
        ws = [float(w[j % len(w)]) if len(w) > 1 else float(w[0]) for j in range(d)]
        return SymMat([[v * ws[j] for j, v in enumerate(r.vals)] for r in self.rows])

    def mean(self, axis=-1):
        assert axis in (-1, 1)
        return SymArr([sum(r.vals) / len(r.vals) for r in self.rows])


# ----------------------------------------------------------------------------------
# rng stub: a RandomState-compatible object whose draws are fresh symbolic values inside the
# documented range ("every seed" becomes a solver variable)
# ----------------------------------------------------------------------------------
class SymRandomState:
    def __init__(self, sym, tag="rng"):
        self.sym = sym
        self.tag = tag
        self.n = 0

    def _name(self, kind):
        self.n += 1
        return "%s_%s%d" % (self.tag, kind, self.n)

    def uniform(self, low=0.0, high=1.0, size=None):
        def one():
            x = self.sym.real(self._name("u"), None, None)
            if self.sym.symbolic:
                self.sym.assume(low <= x)
                self.sym.assume((x < high) if (high > low) else (x == low))
            else:
                x = min(max(x, low), high)
            return x
        if size is None:
            return one()
        n = size if isinstance(size, int) else size[0]
        return SymArr([one() for _ in range(n)])

    def randint(self, low, high=None, size=None, **k):
        if high is None:
            low, high = 0, low

        def one():
            x = self.sym.int(self._name("i"), -10 ** 6, 10 ** 6)
            if self.sym.symbolic:
                self.sym.assume(low <= x)
                self.sym.assume(x < high)
            else:
                x = min(max(x, low), high - 1)
            return x
        if size is None:
            return one()
        n = size if isinstance(size, int) else size[0]
        return SymArr([one() for _ in range(n)])

    def rand(self, *a):
        return self.uniform(0.0, 1.0, a[0] if a else None)

    def choice(self, a, size=None, replace=True, p=None):
        n = a if isinstance(a, int) else len(a)

        def one():
            i = self.sym.choice(self._name("c"), n)
            return i if isinstance(a, int) else a[i]
        if size is None:
            return one()
        k = size if isinstance(size, int) else size[0]
        return [one() for _ in range(k)]


def _patch_shim_more():
    def divide(self, a, b):
        if any_sym(a, b):
            return a / b
        if isinstance(a, SymArr):
            return SymArr([x / b for x in a])
        return _np.divide(a, b)

    def argmin(self, x, *a, **k):
        if isinstance(x, (SymArr, list)) and any(is_sym(e) for e in x):
            best = 0
            for i in range(1, len(x)):
                if x[i] < x[best]:
                    best = i
            return best
        return _np.argmin(x, *a, **k)

    def argmax(self, x, *a, **k):
        if isinstance(x, (SymArr, list)) and any(is_sym(e) for e in x):
            best = 0
            for i in range(1, len(x)):
                if x[i] > x[best]:
                    best = i
            return best
        return _np.argmax(x, *a, **k)

    def log1p(self, v):
        if isinstance(v, SymArr):
            return SymArr([log1p(self, e) for e in v])
        if is_sym(v):
            return self.log(1.0 + v)
        return _np.log1p(v)

    def expm1(self, v):
        if isinstance(v, SymArr):
            return SymArr([expm1(self, e) for e in v])
        if is_sym(v):
            return self.exp(v) - 1.0
        return _np.expm1(v)

    NumpyShim.divide = divide
    NumpyShim.argmin = argmin
    NumpyShim.argmax = argmax
    NumpyShim.log1p = log1p
    NumpyShim.expm1 = expm1
    old_abs = NumpyShim.abs
    old_round = NumpyShim.round
    old_exp, old_log = NumpyShim.exp, NumpyShim.log

    def abs_(self, x):
        if isinstance(x, SymArr):
            return SymArr([old_abs(self, e) for e in x])
        return old_abs(self, x)

    def round_(self, x, *a):
        if isinstance(x, SymArr):
            return SymArr([old_round(self, e) for e in x])
        return old_round(self, x, *a)

    def exp_(self, x):
        if isinstance(x, SymArr):
            return SymArr([old_exp(self, e) for e in x])
        return old_exp(self, x)

    def log_(self, x):
        if isinstance(x, SymArr):
            return SymArr([old_log(self, e) for e in x])
        return old_log(self, x)

    NumpyShim.abs = abs_
    NumpyShim.round = round_
    NumpyShim.exp = exp_
    NumpyShim.log = log_


_patch_shim_more()


def _symarr_ops():
    def astype(self, t):
        return SymArr([t(x) if not is_sym(x) else (round(x) if t is int else x) for x in self.items])

    def __mul__(self, k):
        return SymArr([x * k for x in self.items])

    def __rsub__(self, other):
        o = list(other)
        return SymArr([a - b for a, b in zip(o, self.items)])

    def __neg__(self):
        return SymArr([-x for x in self.items])

    SymArr.astype = astype
    SymArr.__mul__ = __mul__
    SymArr.__rmul__ = __mul__
    SymArr.__rsub__ = __rsub__
    SymArr.__neg__ = __neg__


_symarr_ops()
