"""obligation runner: splits obligations into sub-trees, explores them in a process pool,
replays counterexamples and witnesses in fresh processes, applies known findings, writes
evidence.  See DESIGN.md 2.1 / 2.5."""
import os
import sys
import json
import time
import shutil
import hashlib
import itertools
import importlib
import subprocess
import multiprocessing as mp
from dataclasses import dataclass, field, asdict

VERIF = os.path.dirname(os.path.dirname(os.path.abspath(__file__)))
PYDEPS = os.path.join(VERIF, ".pydeps")
WORK = os.path.join(VERIF, ".work")
REPLAYS = os.path.join(VERIF, "replays")
EVIDENCE = os.path.join(VERIF, "evidence")
KNOWN_FILE = os.path.join(VERIF, "known_findings.json")
PY = "/venv/bin/python"

EXIT_OK, EXIT_VIOLATION, EXIT_HARNESS = 0, 1, 3


@dataclass
class Ob:
    name: str                      # e.g. "C03.a[min,shared,B=1]"
    func: str                      # "props.c03:h_stopping"
    params: dict = field(default_factory=dict)
    bounds: dict = field(default_factory=dict)   # stated bounds (text/values) for evidence
    goals: tuple = ()              # coverage goals that must be reachable (vacuity guard)
    split: tuple = ()              # ((varname, (values...)), ...) -> independent sub-trees
    hash_seeds: tuple = ()         # concrete supplement: witnesses are re-run under these PYTHONHASHSEED values, traces must agree
    budget_s: float = 600.0        # wall budget per sub-tree
    per_path_timeout: float = 30.0
    kind: str = "symx"             # "symx" | "direct" (func(ob) -> stats dict itself)
    may_be_incomplete: bool = False
    stubs: tuple = ()
    note: str = ""


def ensure_env():
    if PYDEPS not in sys.path:
        sys.path.append(PYDEPS)
    if VERIF not in sys.path:
        sys.path.insert(0, VERIF)
    os.makedirs(WORK, exist_ok=True)
    os.environ.setdefault("SYNETUNE_FOLDER", os.path.join(WORK, "syne-tune"))
    os.environ.setdefault("SYNE_TUNE_VERIF", "1")
    # import mask (DESIGN 2.1): binary-incompatible optional deps -> ImportError
    for m in ("yahpo_gym", "ConfigSpace"):
        sys.modules.setdefault(m, None)
    import logging
    logging.disable(logging.CRITICAL)
    import warnings
    warnings.filterwarnings("ignore")


def resolve(func):
    mod, fn = func.split(":")
    return getattr(importlib.import_module(mod), fn)


def _task(args):
    """runs in a pool worker"""
    ob_d, pins, tolerate = args[:3]
    deadline = args[3] if len(args) > 3 else None
    ensure_env()
    t0 = time.time()
    if deadline is not None and ob_d.get("may_be_incomplete"):
        # wall budget of the whole run (thorough tier): obligations that are not sized to exhaust share what is left
        left = deadline - t0
        if left <= 5:
            return dict(paths=0, ok=0, ignored=0, unknown=0, known=0, failed=0, exhausted=False, decisions=0,
                        fails=[], goals={}, goals_seen={}, known_codes={}, samples=[], solver_queries=0, solver_s=0.0,
                        solver_unknown=0, realizations=0, realization_sites={}, unknown_reasons={}, error=None,
                        skipped_at_deadline=True, ob=ob_d["name"], pins=pins, task_wall=0.0)
        ob_d = dict(ob_d, budget_s=min(ob_d["budget_s"], left))
    if not os.environ.get("VERIF_KEEP_STDOUT"):
        sys.stdout = open(os.devnull, "w")     # the code under test prints progress tables
    try:
        from symx import driver
        fn = resolve(ob_d["func"])
        if ob_d["kind"] == "direct":
            st = fn(ob_d)
        else:
            st = driver.explore(fn, params=ob_d["params"], pins=pins, tolerate=tolerate,
                                budget_s=ob_d["budget_s"], per_path_timeout=ob_d["per_path_timeout"],
                                want_goals=ob_d["goals"])
    except BaseException as e:  # noqa
        import traceback
        st = dict(paths=0, ok=0, ignored=0, unknown=0, known=0, failed=0, exhausted=False, decisions=0,
                  fails=[], goals={}, goals_seen={}, known_codes={}, samples=[], solver_queries=0, solver_s=0.0,
                  solver_unknown=0, realizations=0, realization_sites={}, unknown_reasons={},
                  error="worker: %s: %s\n%s" % (type(e).__name__, e, traceback.format_exc()[-2000:]))
    st["ob"] = ob_d["name"]
    st["pins"] = pins
    st["task_wall"] = time.time() - t0
    return st


def _pin_combos(split):
    if not split:
        return [{}]
    names = [s[0] for s in split]
    return [dict(zip(names, combo)) for combo in itertools.product(*[s[1] for s in split])]


def load_known(prop):
    if not os.path.exists(KNOWN_FILE):
        return []
    data = json.load(open(KNOWN_FILE))
    return [f for f in data.get("findings", []) if f.get("property") == prop]


def replay_file(path, profile=False, tolerate=(), hashseed=None):
    """run a replay file in a fresh interpreter; returns the result dict or None"""
    cmd = [PY, os.path.join(VERIF, "check"), "--replay-internal", path]
    if profile:
        cmd.append("--profile")
    if tolerate:
        cmd += ["--tolerate", ",".join(tolerate)]
    env = dict(os.environ)
    env["PYTHONHASHSEED"] = str(hashseed) if hashseed is not None else env.get("PYTHONHASHSEED", "0")
    try:
        out = subprocess.run(cmd, capture_output=True, text=True, timeout=600, env=env, cwd=VERIF)
    except subprocess.TimeoutExpired:
        return None
    for line in out.stdout.splitlines()[::-1]:
        if line.startswith("REPLAY-RESULT "):
            return json.loads(line[len("REPLAY-RESULT "):])
    return dict(outcome="error", code=None, msg=(out.stderr or out.stdout)[-1500:], goals=[], functions=[])


def write_replay(prop, ob, model, code, kind, directory=REPLAYS):
    os.makedirs(directory, exist_ok=True)
    body = dict(property=prop, obligation=ob.name, func=ob.func, params=ob.params, model=model,
                code=code, kind=kind)
    h = hashlib.sha1(json.dumps(body, sort_keys=True, default=str).encode()).hexdigest()[:10]
    path = os.path.join(directory, "%s-%s-%s.json" % (prop, kind, h))
    with open(path, "w") as f:
        json.dump(body, f, indent=1, sort_keys=True, default=str)
    return path


def run_property(prop, obligations, tier, seed=0, workers=None, assumptions=(), level="model_checking",
                 trusted_base=(), explanation=""):
    """explore all obligations; print verdict lines; write evidence; return exit code"""
    ensure_env()
    t_start = time.time()
    workers = workers or int(os.environ.get("VERIF_WORKERS", "16"))
    known = load_known(prop)
    tolerate = tuple(sorted({k["code"] for k in known}))
    harness_errors = []
    out_lines = []

    # (a) replay known findings without tolerance
    known_alive = []
    for k in known:
        rp = os.path.join(VERIF, k["replay"])
        res = replay_file(rp)
        if res and res.get("outcome") == "fail" and res.get("code") == k["code"]:
            print("KNOWN-FINDING: property=%s %s [%s] replay=%s" % (prop, k["what"], k["code"], k["replay"]), flush=True)
            known_alive.append(k["code"])
        else:
            print("NOTE: known finding %s no longer reproduces (stale entry): %s" % (k["code"], (res or {}).get("outcome")), flush=True)

    # (b) exploration
    cap = os.environ.get("VERIF_BUDGET_S")
    if cap:
        for ob in obligations:
            ob.budget_s = min(ob.budget_s, float(cap))
    # wall budget for the whole run: only obligations flagged may_be_incomplete (thorough tier) are cut by it
    wall_budget = os.environ.get("VERIF_WALL_S") or ("3000" if tier == "thorough" else "")
    deadline = (t_start + float(wall_budget)) if wall_budget else None
    tasks = []
    for ob in obligations:
        for pins in _pin_combos(ob.split):
            tasks.append((asdict(ob), pins, tolerate, deadline))
    import random
    rnd = random.Random(seed)
    # obligations sized to exhaust first, then longest first (by budget), order otherwise seeded
    rnd.shuffle(tasks)
    tasks.sort(key=lambda t: (bool(t[0]["may_be_incomplete"]), -t[0]["budget_s"]))
    results = {}
    ctx = mp.get_context("spawn")
    n_proc = max(1, min(workers, len(tasks)))
    with ctx.Pool(processes=n_proc, maxtasksperchild=8) as pool:
        for st in pool.imap_unordered(_task, tasks):
            results.setdefault(st["ob"], []).append(st)
            if os.environ.get("VERIF_VERBOSE"):
                print("  task %s pins=%s paths=%d exhausted=%s failed=%d unknown=%d wall=%.1fs %s" % (
                    st["ob"], st["pins"], st["paths"], st["exhausted"], st["failed"], st["unknown"],
                    st["task_wall"], ("ERROR " + st["error"][:300]) if st.get("error") else ""), flush=True)

    # (c) aggregate; collect replay jobs (witnesses, counterexamples), run them concurrently in
    #     fresh interpreters, then interpret
    ob_records = []
    violations = []
    validated = 0
    functions = set()
    total_paths = total_dec = total_q = 0
    total_solver_s = 0.0
    total_unknown = 0
    samples = []
    jobs = []       # (kind, ob, key, path)
    per_ob = {}
    for ob in obligations:
        sts = results.get(ob.name, [])
        rec = dict(name=ob.name, func=ob.func, bounds=ob.bounds, subtrees=len(sts),
                   paths=sum(s["paths"] for s in sts), ok=sum(s["ok"] for s in sts),
                   ignored=sum(s["ignored"] for s in sts), unknown=sum(s["unknown"] for s in sts),
                   known_paths=sum(s["known"] for s in sts), failed_paths=sum(s["failed"] for s in sts),
                   decisions=sum(s["decisions"] for s in sts),
                   solver_queries=sum(s["solver_queries"] for s in sts),
                   solver_s=round(sum(s["solver_s"] for s in sts), 2),
                   realizations=sum(s["realizations"] for s in sts),
                   subtrees_skipped_at_deadline=sum(1 for s in sts if s.get("skipped_at_deadline")),
                   wall_s=round(max([s["task_wall"] for s in sts] or [0]), 1),
                   cpu_s=round(sum(s["task_wall"] for s in sts), 1))
        if ob.note:
            rec["note"] = ob.note
        sites = {}
        for s in sts:
            for k_, v_ in s.get("realization_sites", {}).items():
                sites[k_] = sites.get(k_, 0) + v_
        if sites:
            rec["realization_sites"] = dict(sorted(sites.items(), key=lambda kv: -kv[1])[:6])
        ur = {}
        for s in sts:
            for k_, v_ in s.get("unknown_reasons", {}).items():
                ur[k_] = ur.get(k_, 0) + v_
        if ur:
            rec["unknown_reasons"] = ur
        errs = [s["error"] for s in sts if s.get("error")]
        exhausted = bool(sts) and all(s["exhausted"] for s in sts) and not errs
        total_paths += rec["paths"]; total_dec += rec["decisions"]; total_q += rec["solver_queries"]
        total_solver_s += rec["solver_s"]; total_unknown += rec["unknown"]
        if errs:
            harness_errors.append("%s: %s" % (ob.name, errs[0][:1500]))
        goals = {}          # goal -> list of candidate witness models (non-fragile paths)
        goals_seen = set()
        for s in sts:
            for g, ms in s["goals"].items():
                goals.setdefault(g, [])
                if len(goals[g]) < 4:
                    goals[g].extend(ms[:2])
            goals_seen.update(s.get("goals_seen", {}).keys())
        rec["goals_reached"] = sorted(goals_seen)
        fails = {}          # code -> list of candidate failing paths
        for s in sts:
            for f in s["fails"]:
                fails.setdefault(f["code"], []).append(f)
        for code in fails:
            fails[code].sort(key=lambda f: bool(f.get("fragile")))
            fails[code] = fails[code][:4]
        rec["violations"] = []
        per_ob[ob.name] = dict(rec=rec, sts=sts, exhausted=exhausted, goals=goals, fails=fails, goals_seen=goals_seen)
        if ob.kind == "symx":
            todo = [g for g in ob.goals if goals.get(g)]
            if not todo and goals:
                todo = [g for g in sorted(goals) if goals[g]][:1]
            for g in todo:
                for ci, m in enumerate(goals[g][:4]):
                    path = write_replay(prop, ob, m, g, "witness", directory=os.path.join(WORK, "witness"))
                    jobs.append(("witness", ob.name, (g, ci), path))
            for code, cands in fails.items():
                for ci, f in enumerate(cands):
                    if f["model"] is None:
                        continue
                    path = write_replay(prop, ob, f["model"], code, "cex")
                    jobs.append(("cex", ob.name, (code, ci), path))
    from concurrent.futures import ThreadPoolExecutor
    with ThreadPoolExecutor(max_workers=workers) as tp:
        futs = [(j, tp.submit(replay_file, j[3], j[0] == "witness", tolerate if j[0] == "witness" else ())) for j in jobs]
        replayed = {(j[0], j[1], j[2]): (j[3], f.result()) for j, f in futs}

    for ob in obligations:
        d = per_ob[ob.name]
        rec, sts, exhausted, goals, fails = d["rec"], d["sts"], d["exhausted"], d["goals"], d["fails"]
        missing = [g for g in ob.goals if g not in d["goals_seen"]]
        if ob.kind == "symx":
            wit_ok = 0
            by_goal = {}
            for (kind, obn, (g, ci)), (path, res) in replayed.items():
                if kind != "witness" or obn != ob.name:
                    continue
                ok = bool(res and g in res.get("goals", []) and res.get("outcome") in ("ok", "known"))
                by_goal.setdefault(g, []).append((ok, ci, res))
            for g, lst in by_goal.items():
                good = [x for x in lst if x[0]]
                if good:
                    wit_ok += len(good)
                    for _, ci, res in good:
                        functions.update(res.get("functions", []))
                    if len(samples) < 6:
                        _, ci, res = good[0]
                        samples.append(dict(obligation=ob.name, witness_for=g, inputs=goals[g][ci], trace=res.get("trace", [])[-25:]))
                else:
                    r2 = dict(lst[0][2] or {})
                    r2.pop("functions", None)
                    harness_errors.append("%s: no witness for goal %r replays concretely (%d candidates): %s" % (
                        ob.name, g, len(lst), json.dumps(r2)[:900]))
            # concrete supplement (hash randomisation is not a solver variable): the first good witness of every goal is
            # re-run in fresh interpreters under other PYTHONHASHSEED values; the event traces must be identical
            if ob.hash_seeds:
                hs_jobs = []
                for g, lst in by_goal.items():
                    good = [x for x in lst if x[0]]
                    if good:
                        _, ci, res0 = good[0]
                        wpath = [pth for (k_, o_, (g_, c_)), (pth, r_) in replayed.items() if k_ == "witness" and o_ == ob.name and g_ == g and c_ == ci][0]
                        for hs in ob.hash_seeds:
                            hs_jobs.append((g, ci, hs, wpath, res0))
                with ThreadPoolExecutor(max_workers=workers) as tp:
                    hs_res = [(j, tp.submit(replay_file, j[3], False, tolerate, j[2])) for j in hs_jobs]
                    hs_res = [(j, f.result()) for j, f in hs_res]
                n_cmp = 0
                for (g, ci, hs, wpath, res0), r in hs_res:
                    if r is None or r.get("outcome") == "error":
                        harness_errors.append("%s: witness replay under PYTHONHASHSEED=%s failed: %s" % (ob.name, hs, json.dumps(r)[:300]))
                        continue
                    n_cmp += 1
                    if r.get("trace") != res0.get("trace") or r.get("outcome") != res0.get("outcome"):
                        diff = [(a, b) for a, b in zip(res0.get("trace", []), r.get("trace", [])) if a != b][:1]
                        code = prop + ".hash-seed-dependence"
                        if any(v[1] == code and v[0] == ob.name for v in violations):
                            continue
                        body = json.load(open(wpath))
                        body.update(kind="cex", code=code, hash_seeds=[0, hs])
                        os.makedirs(REPLAYS, exist_ok=True)
                        cpath = os.path.join(REPLAYS, "%s-cex-hash-%s" % (prop, os.path.basename(wpath).split("-")[-1]))
                        json.dump(body, open(cpath, "w"), indent=1, sort_keys=True, default=str)
                        msg = "same inputs, PYTHONHASHSEED 0 vs %s: traces differ, first difference %s" % (hs, diff)
                        violations.append((ob.name, code, cpath, msg))
                        rec["violations"].append(dict(code=code, replay=os.path.relpath(cpath, VERIF), msg=msg))
                rec["hash_seed_comparisons"] = n_cmp
                validated += n_cmp
            for g in ob.goals:
                if g in d["goals_seen"] and not goals.get(g) and exhausted and not fails:
                    harness_errors.append("%s: goal %r only reached on paths inside a round-off tolerance band (no robust witness)" % (ob.name, g))
            validated += wit_ok
            rec["witnesses_replayed"] = wit_ok
            if missing and exhausted and not fails:
                harness_errors.append("%s: coverage goal(s) unreachable (vacuous harness?): %s" % (ob.name, missing))
            if missing and not exhausted:
                rec["goals_not_reached_before_budget"] = missing
            by_code = {}
            for (kind, obn, (code, ci)), (path, res) in replayed.items():
                if kind != "cex" or obn != ob.name:
                    continue
                by_code.setdefault(code, []).append((ci, path, res))
            for code, lst in by_code.items():
                lst.sort()
                if code.startswith("EXC:") and "@harness:" in code:
                    # exception raised by a line of the harness / a stub, not by the code under test: the machinery does not
                    # fit the tree (e.g. it reads a private attribute that was renamed); never a VIOLATION
                    f = fails[code][0]
                    harness_errors.append("%s: the harness itself raised %s: %s %s" % (ob.name, code, f["msg"][:300], f.get("tb", "")[-500:]))
                    for ci, path, res in lst:
                        if os.path.exists(path):
                            os.remove(path)
                    continue
                reproduced = [(ci, path, res) for ci, path, res in lst if res and res.get("outcome") == "fail"]
                keep = reproduced[0][1] if reproduced else None
                for ci, path, res in lst:
                    if path != keep and os.path.exists(path):
                        os.remove(path)
                if reproduced:
                    ci, path, res = reproduced[0]
                    validated += 1
                    rcode = res.get("code")
                    if rcode in tolerate:
                        rec.setdefault("matched_known", []).append(rcode)
                        os.remove(path)
                        continue
                    violations.append((ob.name, rcode, path, res.get("msg", "")))
                    rec["violations"].append(dict(code=rcode, symbolic_code=code, replay=os.path.relpath(path, VERIF),
                                                  msg=res.get("msg", ""), trace=res.get("trace", [])[-25:]))
                else:
                    f = fails[code][0]
                    r2 = dict(lst[0][2] or {})
                    r2.pop("functions", None)
                    harness_errors.append("%s: counterexample for %s does not reproduce concretely in %d candidate(s) "
                                          "(encoding problem or round-off-only effect): sym msg=%s tb=%s replay=%s" % (
                                              ob.name, code, len(lst), f["msg"][:300], f.get("tb", "")[-600:], json.dumps(r2)[:600]))
            for code, cands in fails.items():
                if all(f["model"] is None for f in cands):
                    harness_errors.append("%s: no model for failing path %s: %s" % (ob.name, code, cands[0]["msg"]))
        else:
            for s in sts:
                validated += s.get("validated", 0)
                functions.update(s.get("functions", []))
                for smp in s.get("samples", [])[:2]:
                    if len(samples) < 6:
                        samples.append(dict(obligation=ob.name, **smp) if isinstance(smp, dict) else smp)
            for code, cands in fails.items():
                f = cands[0]
                if f.get("reproduced"):
                    path = write_replay(prop, ob, f.get("model"), code, "cex")
                    violations.append((ob.name, code, path, f.get("msg", "")))
                    rec["violations"].append(dict(code=code, replay=os.path.relpath(path, VERIF), msg=f.get("msg", "")))
                else:
                    harness_errors.append("%s: model for %s does not reproduce: %s" % (ob.name, code, f.get("msg", "")[:300]))
        if rec["violations"]:
            rec["status"] = "refuted"
        elif exhausted and rec["unknown"] == 0:
            rec["status"] = "discharged"
        else:
            rec["status"] = "incomplete"
        if not samples:
            for s in sts:
                for smp in s.get("samples", [])[:1]:
                    samples.append(dict(obligation=ob.name, **smp))
        ob_records.append(rec)

    discharged = sum(1 for r in ob_records if r["status"] == "discharged")
    incomplete = [r["name"] for r in ob_records if r["status"] == "incomplete"]
    for r in ob_records:
        line = "%-11s %-46s paths=%-6d decisions=%-7d queries=%-7d solver=%.1fs unknown=%d known=%d cpu=%.0fs" % (
            r["status"].upper(), r["name"], r["paths"], r["decisions"], r["solver_queries"], r["solver_s"],
            r["unknown"], r["known_paths"], r["cpu_s"])
        print(line, flush=True)
    must_complete = {ob.name for ob in obligations if not ob.may_be_incomplete}
    for name in incomplete:
        print("INCOMPLETE obligation=%s (budget or solver unknown; NOT counted as discharged)" % name, flush=True)
        if name in must_complete and not harness_errors:
            harness_errors.append("%s did not exhaust within its budget although sized to do so" % name)

    for (obn, code, path, msg) in violations:
        print("VIOLATION property=%s replay=%s obligation=%s code=%s %s" % (
            prop, os.path.relpath(path, VERIF), obn, code, msg[:300]), flush=True)
    for e in harness_errors:
        print("HARNESS-ERROR %s" % e, flush=True)

    wall = time.time() - t_start
    ev = dict(
        property_id=prop, tier=tier, seed=int(seed), level=level,
        coverage=dict(
            states=max(total_paths, 0), transitions=max(total_dec, 0),
            traces_validated_against_impl=validated,
            samples=samples[:6] or [dict(note="no path completed")],
            obligations=len(ob_records), discharged=discharged, incomplete=incomplete,
            exhaustive=(discharged == len(ob_records)),
            explanation=explanation,
            rule="states = feasible execution paths of the harness through the real code (one per solver-distinguished "
                 "equivalence class of inputs); transitions = solver-decided branch points along them",
            solver_queries=total_q, solver_s=round(total_solver_s, 1), unknowns=total_unknown,
            functions_encoded=sorted(functions),
            obligation_records=ob_records,
            known_findings_reproduced=known_alive,
            harness_errors=harness_errors,
            trusted_base=list(trusted_base),
            run_wall_budget_s=(float(wall_budget) if wall_budget else None),
        ),
        assumptions=list(assumptions),
        wall_s=round(wall, 1),
        violations=len(violations),
    )
    os.makedirs(EVIDENCE, exist_ok=True)
    with open(os.path.join(EVIDENCE, "%s.json" % prop), "w") as f:
        json.dump(ev, f, indent=1, default=str)
    shutil.rmtree(WORK, ignore_errors=True)
    print("SUMMARY property=%s tier=%s obligations=%d discharged=%d incomplete=%d violations=%d known=%d "
          "paths=%d queries=%d solver=%.0fs wall=%.0fs" % (
              prop, tier, len(ob_records), discharged, len(incomplete), len(violations), len(known_alive),
              total_paths, total_q, total_solver_s, wall), flush=True)
    if violations:
        return EXIT_VIOLATION
    if harness_errors:
        return EXIT_HARNESS
    return EXIT_OK
