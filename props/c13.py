"""C13  Trial failures are contained.

(a) scheduler level: Hyperband stopping / promotion with random and GP multi-fidelity searcher
    (bookkeeping only), failures at every point of a trial's life; state diff restricted to the
    failed trial.
(b) synchronous Hyperband / DEHB: failed jobs do not block a bracket (see props/c05.py harness).
(c) tuner level: max_failures handling in Tuner.run (see props/c01.py harness).
"""
from symx.runner import Ob, run_property
from symx import stubs
from harness.common import make, ref_rung_levels, new_trial
from harness.schedsim import SchedSim, Hooks


def _pending(sch):
    st = sch.searcher.state_transformer.state
    return sorted((int(p.trial_id), int(p.resource)) for p in st.pending_evaluations)


def _rungs(sch, nb):
    out = []
    for b in range(nb):
        for lv, data in sch.terminator.snapshot_rungs(b):
            for e in data:
                out.append((b, lv, int(e.trial_id)))
    return sorted(out)


class C13Hooks(Hooks):
    def __init__(self, sym, sch, gp, finite):
        self.sym, self.sch, self.gp, self.finite = sym, sch, gp, finite
        self.before = None
        self.configs = {}

    def snapshot(self):
        return dict(pending=_pending(self.sch) if self.gp else [], rungs=_rungs(self.sch, 1))

    def after(self, sim, kind, tid, info):
        sym = self.sym
        now = self.snapshot()
        if kind == "fail":
            sym.goal("failure")
            if sim.run_no[tid] > 0:
                sym.goal("failure-after-resume")
            if sim.level[tid] == 0:
                sym.goal("failure-before-first-report")
            b = self.before
            others_b = [p for p in b["pending"] if p[0] != tid]
            others_n = [p for p in now["pending"] if p[0] != tid]
            sym.check(others_b == others_n, "C13.other-pending-changed",
                      "failure of trial %d changed pending evaluations of other trials: %s -> %s" % (tid, b["pending"], now["pending"]))
            sym.check(not any(p[0] == tid for p in now["pending"]), "C13.failed-trial-still-pending", str(now["pending"]))
            rb = [x for x in b["rungs"] if x[2] != tid]
            rn = [x for x in now["rungs"] if x[2] != tid]
            sym.check(rb == rn, "C13.other-rung-entries-changed", "%s -> %s" % (b["rungs"], now["rungs"]))
        if kind == "start":
            cfg = dict(info.config)
            cfg.pop("epochs", None)
            if self.finite:
                for t2, c2 in self.configs.items():
                    sym.check(c2 != cfg, "C13.config-resuggested",
                              "new trial %d gets config %s equal to trial %d (failed=%s)" % (tid, cfg, t2, sorted(sim.failed)))
            self.configs[tid] = cfg
        if kind == "resume":
            sym.check(tid not in sim.failed, "C13.failed-trial-resumed", "trial %d" % tid)
            sym.goal("resume")
        self.before = now

    def end(self, sim):
        self.sym.goal("end")


def h_hyperband(sym, typ="stopping", searcher="random", mode="min", policy="rungs", T=3, E=7, W=2, max_fail=2,
                max_t=4, finite=False, ckpt=True):
    from syne_tune.optimizer.schedulers.hyperband import HyperbandScheduler
    from syne_tune.config_space import uniform, choice
    gp = searcher == "bayesopt"
    if gp:
        stubs.shim_modules(["syne_tune.optimizer.schedulers.searchers.model_based_searcher"])
    cs = {"x": choice(["a", "b", "c", "d"]) if finite else uniform(0, 1), "epochs": max_t}
    so = {"debug_log": False}
    if gp:
        so["num_init_random"] = 10
    sch = make(HyperbandScheduler, cs, searcher=searcher, metric="m", mode=mode, resource_attr="r",
               max_resource_attr="epochs", type=typ, grace_period=1, reduction_factor=2, random_seed=3,
               searcher_data=policy, search_options=so)
    hooks = C13Hooks(sym, sch, gp, finite)
    hooks.before = hooks.snapshot()
    sim = SchedSim(sym, sch, W=W, T=T, E=E, max_t=max_t, checkpointing=ckpt, max_fail=max_fail, code="C13")
    sim.run(hooks)


def h_gp_early_failures(sym, W=3, N=7, num_init_random=2):
    """FIFO + GP Bayesian optimisation with a SMALL num_init_random: trials are started and fail (symbolic order) before any
    trial has delivered a result.  Without observations the searcher has nothing to fit; every request for work must still be
    answered (no exception), and a failed configuration is not suggested again."""
    from syne_tune.optimizer.schedulers.fifo import FIFOScheduler
    from syne_tune.config_space import uniform, randint
    stubs.shim_modules(["syne_tune.optimizer.schedulers.searchers.model_based_searcher"])
    cs = {"x": uniform(0, 1), "n": randint(1, 5)}
    sch = make(FIFOScheduler, cs, searcher="bayesopt", metric="m", mode="min", random_seed=3,
               search_options={"debug_log": False, "num_init_random": num_init_random})
    trials, running, failed_cfgs = {}, [], []
    for step in range(N):
        opts = [("fail", t) for t in running]
        if len(running) < W:
            opts.append(("suggest", None))
        kind, tid = opts[sym.choice("c%d" % step, len(opts))]
        if kind == "suggest":
            nid = len(trials)
            try:
                s_ = sch.suggest(nid)
            except AssertionError as e:
                s_ = None
                sym.violation("C13.scheduler-raises-after-failure", "suggest(%d) raises AssertionError (%s) after %d failure(s) and no result so far" % (nid, str(e)[:120], len(failed_cfgs)))
            sym.check(s_ is not None and s_.spawn_new_trial_id, "C13.scheduler-raises-after-failure", "suggest(%d) returned %s" % (nid, s_))
            core = {k: s_.config[k] for k in ("x", "n")}
            sym.check(core not in failed_cfgs, "C13.failed-config-resuggested", str(core))
            trials[nid] = new_trial(nid, s_.config)
            sch.on_trial_add(trials[nid])
            running.append(nid)
            if failed_cfgs:
                sym.goal("suggest-after-failure")
        else:
            sch.on_trial_error(trials[tid])
            running.remove(tid)
            failed_cfgs.append({k: trials[tid].config[k] for k in ("x", "n")})
            sym.goal("failure")
    sym.goal("end")


ASSUME = [
    "scheduler is driven with the tuner's protocol: on_trial_error once per failure, failed trial leaves the running set",
    "exact real arithmetic for metrics; GP surrogate not fitted (bookkeeping only)",
    "pending evaluations read from searcher.state_transformer.state, rung entries from the public terminator.snapshot_rungs",
]


def obligations(tier):
    quick = tier == "quick"
    obs = []
    E = 7 if quick else 8
    sp = (("c1", (0, 1, 2, 3)), ("c2", (0, 1, 2, 3, 4)))
    for typ in ("stopping", "promotion"):
        for searcher, policy in (("bayesopt", "all"), ("bayesopt", "rungs"), ("random", "rungs")):
            p = dict(typ=typ, searcher=searcher, policy=policy, T=3, E=E, W=2, max_fail=2, finite=(searcher == "random"))
            goals = ("failure", "failure-before-first-report", "end") + (("failure-after-resume", "resume") if typ == "promotion" else ())
            obs.append(Ob("C13.a[%s,%s,%s]" % (typ, searcher, policy), "props.c13:h_hyperband", p,
                          bounds=dict(T=3, E=E, W=2, failures="<=2", max_t=4, levels=[1, 2]), goals=goals, split=sp,
                          budget_s=1500, may_be_incomplete=not quick, stubs=("fmt", "npshim")))
    return obs


def early_failure_obligations():
    return [Ob("C13.d[fifo-bo,num_init_random=2,failures-before-any-result]", "props.c13:h_gp_early_failures", dict(W=3, N=7, num_init_random=2),
               bounds=dict(W=3, events=7, num_init_random=2, events_kind="starts and failures only"), goals=("failure", "suggest-after-failure", "end"),
               split=(("c3", (0, 1, 2, 3)),), budget_s=900, stubs=("npshim on model_based_searcher",))]


def run(tier, seed, only=None):
    obs = obligations(tier) + early_failure_obligations()
    try:
        from props import c05
        obs += c05.failure_obligations(tier)
    except (ImportError, AttributeError):
        pass
    try:
        from props import c01
        obs += c01.failure_obligations(tier)
    except (ImportError, AttributeError):
        pass
    if only:
        obs = [o for o in obs if only in o.name]
    return run_property("C13", obs, tier, seed, assumptions=ASSUME,
                        explanation="failures placed at every point of every schedule within bounds; state diff restricted to the failed trial; scheduler never raises")
