"""C05  Synchronous Hyperband fills rungs exactly and promotes exactly the top trials.

(a) SynchronousHyperbandBracketManager / SynchronousHyperbandBracket / get_top_list through the
    manager's public next_job / on_result API: symbolic return order of pending jobs, symbolic
    failures (NaN), symbolic metrics;
(b) SynchronousHyperbandScheduler (geometric and custom rung systems) through the scheduler API
    (suggest / on_trial_result / on_trial_error), incl. C13's 'brackets do not wait forever'."""
from symx.runner import Ob, run_property
from symx import stubs
from harness.common import make, new_trial

HB = "syne_tune.optimizer.schedulers.synchronous.hyperband_bracket"


def _nbetter(prev, t, mode):
    tn, tv = prev[t]
    n = 0
    for u, (un, uv) in prev.items():
        if u == t:
            continue
        if tn and not un:
            n += 1
        elif (not tn) and (not un):
            if (uv < tv) if mode == "min" else (uv > tv):
                n += 1
    return n


def h_manager(sym, rungs=None, W=2, E=10, mode="min", max_fail=3, concrete_metrics=False):
    from syne_tune.optimizer.schedulers.synchronous.hyperband_bracket_manager import SynchronousHyperbandBracketManager
    stubs.shim_modules([HB])
    RUNGS = [[tuple(x) for x in r] for r in rungs]
    bm = SynchronousHyperbandBracketManager(RUNGS, mode=mode)
    pending = []
    next_tid = 0
    res = {}       # (bracket, rung index) -> {trial: (is_nan, value)}
    handed = {}    # (bracket, rung index) -> list of trials handed out
    brackets_seen = []
    nfail = 0
    for step in range(E):
        opts = len(pending) + (1 if len(pending) < W else 0)
        cc = sym.choice("c%d" % step, opts)
        if cc == len(pending):
            b, slot = bm.next_job()
            sym.check(slot is not None, "C05.next-job-blocks", "")
            if b not in brackets_seen:
                # a new bracket is opened only if no open bracket has a free slot; offsets cycle
                sym.check(b == len(brackets_seen), "C05.bracket-id-sequence", "%s after %s" % (b, brackets_seen))
                for ob in brackets_seen:
                    off_o = ob % len(RUNGS)
                    rg = RUNGS[off_o]
                    # open bracket ob has a free slot iff some rung has fewer handed-out jobs than its size and the previous rung is complete
                    for ri, (size, lv) in enumerate(rg):
                        h = len(handed.get((ob, ri), []))
                        prev_done = ri == 0 or len(res.get((ob, ri - 1), {})) == rg[ri - 1][0]
                        cur_active = all(len(res.get((ob, rj), {})) == rg[rj][0] for rj in range(ri))
                        if h < size and prev_done and cur_active:
                            sym.violation("C05.new-bracket-although-free-slot", "bracket %d opened while bracket %d rung %d has a free slot" % (b, ob, ri))
                brackets_seen.append(b)
                if len(brackets_seen) > 1:
                    sym.goal("second-bracket")
            off = b % len(RUNGS)
            rg = RUNGS[off]
            sym.check(slot.level == rg[slot.rung_index][1], "C05.slot-level", "bracket %d (offset %d) rung %d: level %s" % (b, off, slot.rung_index, slot.level))
            key = (b, slot.rung_index)
            if slot.rung_index == 0:
                sym.check(slot.trial_id is None, "C05.first-rung-not-new-trial", "")
                slot.trial_id = next_tid
                next_tid += 1
            else:
                prev = res.get((b, slot.rung_index - 1), {})
                sym.check(len(prev) == rg[slot.rung_index - 1][0], "C05.promotion-before-rung-complete",
                          "trial %s resumed to rung %d of bracket %d but the previous rung has %d of %d results" % (slot.trial_id, slot.rung_index, b, len(prev), rg[slot.rung_index - 1][0]))
                t = slot.trial_id
                sym.check(t in prev and t not in handed.get(key, []), "C05.promoted-unknown-or-twice", str(t))
                size = rg[slot.rung_index][0]
                nb = _nbetter(prev, t, mode)
                sym.check(nb < size, "C05.promoted-not-in-top-list", "trial %s promoted to a rung of size %d although %d trials of its rung are strictly better" % (t, size, nb))
                sym.goal("promotion")
                if prev[t][0]:
                    sym.goal("failed-trial-promoted")
            handed.setdefault(key, []).append(slot.trial_id)
            sym.check(len(handed[key]) <= rg[slot.rung_index][0], "C05.rung-overfilled", "")
            sym.check(len(set(handed[key])) == len(handed[key]), "C05.rung-duplicate-trial", "")
            pending.append((b, slot))
            sym.event("job bracket %d rung %d trial %s" % (b, slot.rung_index, slot.trial_id))
        else:
            item = pending[cc]
            pending.remove(item)
            b, slot = item
            isnan = nfail < max_fail and sym.bool("fail%d" % step)
            if isnan:
                nfail += 1
                v = float("nan")
                sym.goal("failure")
            elif concrete_metrics:
                v = float((step * 7 + slot.trial_id * 3) % 11) + 0.01 * slot.trial_id
            else:
                v = sym.real("m%d" % step, -100, 100)
            slot.metric_val = v
            res.setdefault((b, slot.rung_index), {})[slot.trial_id] = (isnan, v)
            bm.on_result((b, slot))
            sym.event("result bracket %d rung %d trial %s%s" % (b, slot.rung_index, slot.trial_id, " FAILED" if isnan else ""))
    sym.goal("end")


def h_scheduler(sym, geometric=None, rungs=None, W=2, E=9, mode="min", max_fail=1, max_t=4, ckpt=True, dehb=False, brackets=None,
                concrete_metrics=False, straggler=None):
    """scheduler API level: never blocks, pauses exactly at milestones, resumes only paused trials to
    the next level, failed jobs do not block the bracket"""
    from syne_tune.optimizer.schedulers.synchronous.hyperband_impl import SynchronousGeometricHyperbandScheduler
    from syne_tune.optimizer.schedulers.synchronous.hyperband import SynchronousHyperbandScheduler
    from syne_tune.config_space import uniform
    stubs.shim_modules([HB, "syne_tune.optimizer.schedulers.synchronous.hyperband"])
    cs = {"x": uniform(0, 1), "epochs": max_t}
    if dehb:
        from syne_tune.optimizer.schedulers.synchronous.hyperband_impl import GeometricDifferentialEvolutionHyperbandScheduler
        stubs.shim_modules(["syne_tune.optimizer.schedulers.synchronous.dehb", "syne_tune.optimizer.schedulers.synchronous.dehb_bracket"])
        sch = make(GeometricDifferentialEvolutionHyperbandScheduler, cs, metric="m", mode=mode, resource_attr="r",
                   max_resource_attr="epochs", grace_period=geometric[0], reduction_factor=geometric[1], random_seed=2,
                   **({"brackets": brackets} if brackets else {}))
    elif geometric:
        sch = make(SynchronousGeometricHyperbandScheduler, cs, metric="m", mode=mode, resource_attr="r",
                   max_resource_attr="epochs", grace_period=geometric[0], reduction_factor=geometric[1], random_seed=2)
    else:
        sch = make(SynchronousHyperbandScheduler, cs, bracket_rungs=[[tuple(x) for x in r] for r in rungs], metric="m", mode=mode,
                   resource_attr="r", max_resource_attr="epochs", random_seed=2)
    all_levels = sorted({lv for r in sch.bracket_manager.bracket_rungs for _, lv in r})
    trials, level, running, paused, failed, target = {}, {}, [], set(), set(), {}
    nfail = 0
    idle_suggests = 0
    # straggler schedules (long runs with several open brackets): workers report first in first out, except ONE job -- the
    # straggler-th one started, a solver variable -- which is held back until `delay` (solver variable) other reports came in
    n_started = 0
    start_no, others_since = {}, {}
    if straggler:
        sg = sym.choice("straggler", straggler[0])
        delay = sym.choice("delay", straggler[1])
    for step in range(E):
        if straggler:
            free = [t for t in running if not (start_no[t] == sg and others_since[t] < delay)]
            if len(running) < W:
                kind, tid = "suggest", None
            else:
                kind, tid = "report", (free[0] if free else running[0])
        else:
            opts = [("report", t) for t in running]
            if nfail < max_fail:
                opts += [("fail", t) for t in running]
            if len(running) < W:
                opts.append(("suggest", None))
            kind, tid = opts[sym.choice("c%d" % step, len(opts))]
        if kind == "report":
            for t in running:
                if t != tid:
                    others_since[t] = others_since.get(t, 0) + 1
        if kind == "suggest":
            nid = len(trials)
            try:
                s = sch.suggest(nid)
            except IndexError as e:
                s = None
                sym.violation("C05.request-for-work-raises" + ("[dehb]" if dehb else ""),
                              "suggest(%d) raises IndexError (%s) after %d events, %d trials started" % (nid, e, step, len(trials)))
            sym.check(s is not None, "C05.request-for-work-blocks" + ("[dehb]" if dehb else ""), "suggest returned None with %d running (failed=%s)" % (len(running), sorted(failed)))
            if s.spawn_new_trial_id:
                tid = nid
                trials[tid] = new_trial(tid, s.config)
                sch.on_trial_add(trials[tid])
                level[tid] = 0
                sym.check(s.config["epochs"] in all_levels, "C05.first-level", str(s.config["epochs"]))
                target[tid] = s.config["epochs"]
                sym.event("start t%d to %d" % (tid, target[tid]))
            else:
                tid = s.checkpoint_trial_id
                sym.check(tid not in failed, "C13.failed-trial-resumed", "failed trial %s is resumed although enough valid results exist in its rung (failed=%s)" % (tid, sorted(failed)))
                sym.check(tid in paused and tid not in running, "C05.resume-not-paused", "trial %s resumed; paused=%s running=%s failed=%s" % (tid, sorted(paused), running, sorted(failed)))
                paused.discard(tid)
                old = target[tid]
                sym.check(s.config is not None and s.config["epochs"] in all_levels and s.config["epochs"] > old, "C05.resume-level",
                          "trial %s paused at %s resumed to %s" % (tid, old, s.config and s.config.get("epochs")))
                trials[tid].config = s.config
                target[tid] = s.config["epochs"]
                if not ckpt:
                    level[tid] = 0
                sym.goal("promotion")
                sym.event("resume t%d to %d" % (tid, target[tid]))
            running.append(tid)
            start_no[tid] = n_started
            others_since[tid] = 0
            n_started += 1
        elif kind == "report":
            level[tid] += 1
            r = level[tid]
            v = float((tid * 7 + r * 3) % 11) + 0.01 * tid if concrete_metrics else sym.real("m_%d_%d_%d" % (tid, r, step), -100, 100)
            d = sch.on_trial_result(trials[tid], {"m": v, "r": r})
            sym.event("t%d r=%d -> %s" % (tid, r, d))
            if r == target[tid]:
                # DEHB stops (does not pause) trials that will never be resumed: rungs after the first bracket
                sym.check(d == "PAUSE" or (dehb and d == "STOP"), "C05.no-pause-at-milestone", "trial %d at level %d: %s" % (tid, r, d))
                sch.on_trial_remove(trials[tid])
                running.remove(tid)
                if d == "PAUSE":
                    paused.add(tid)
            else:
                sym.check(d == "CONTINUE", "C05.decision-before-milestone", "trial %d at level %d (milestone %d): %s" % (tid, r, target[tid], d))
        else:
            sch.on_trial_error(trials[tid])
            running.remove(tid)
            failed.add(tid)
            nfail += 1
            sym.goal("failure")
            sym.event("fail t%d" % tid)
    # C13: brackets do not wait forever for a failed job -- with nothing running, work is still handed out
    if not running:
        s = sch.suggest(len(trials))
        sym.check(s is not None, "C13.bracket-blocked-after-failure" if not dehb else "C05.request-for-work-blocks[dehb]", "nothing is running, yet suggest returns None (failed=%s)" % sorted(failed))
        sym.goal("drained")
    sym.goal("end")


def h_dehb_parent(sym, R=4):
    """DEHB bracket manager: the table that maps (bracket offset, level) to the parent rung -- the rung of the same level in an
    EARLIER bracket, from which mutation targets are taken inside suggest() -- for a SYMBOLIC number of brackets per
    iteration B in [1, R] (the `brackets` argument of DEHB).  trial_id_from_parent_slot walks this table: an entry that does
    points to a LATER bracket (delta < 0) indexes a bracket that does not exist yet: a request for work raises IndexError."""
    from syne_tune.optimizer.schedulers.synchronous.dehb_bracket_manager import DifferentialEvolutionHyperbandBracketManager
    B = sym.int("B", 1, R)
    for k in range(1, R + 1):       # concretise by forking (the constructor builds lists of length B)
        if B == k:
            B = k
            break
    rungs = [(2 ** (R - 1 - i), 2 ** i) for i in range(R)]
    mgr = DifferentialEvolutionHyperbandBracketManager(rungs_first_bracket=rungs, mode="min", num_brackets_per_iteration=B)
    for off in range(B):
        for _, lv in rungs[off:]:
            delta, ri = mgr._parent_rung[(off, lv)]
            sym.check(delta >= 0, "C05.request-for-work-raises[dehb]",
                      "num_brackets_per_iteration=%d with %d rung levels: the parent rung of (bracket offset %d, level %d) is looked up %d bracket(s) to the "
                      "RIGHT of the bracket asking, which a sequential run has not opened yet: IndexError inside suggest()" % (B, R, off, lv, -delta))
    if B < R:
        sym.goal("fewer-brackets-than-rungs")
    sym.goal("end")


ASSUME = [
    "exact real arithmetic for metrics; failed job = NaN result (what on_trial_error reports)",
    "ties in a rung: any maximal top set is accepted (oracle: a promoted trial has fewer strictly better rung mates than the next rung has slots)",
    "stub npshim on hyperband_bracket / synchronous.hyperband (np.isnan on a symbolic scalar)",
    "DEHB is outside the quick tier (its mutation arithmetic needs concrete encodings)",
]


def obligations(tier):
    quick = tier == "quick"
    obs = []
    R1 = [[[3, 1], [1, 3]], [[1, 3]]]
    R2 = [[[4, 1], [2, 2], [1, 4]], [[2, 2], [1, 4]], [[1, 4]]]
    for mode in ("min", "max"):
        obs.append(Ob("C05.a[manager,%s,rungs=(3,1)(1,3)|(1,3)]" % mode, "props.c05:h_manager", dict(rungs=R1, W=2, E=10, mode=mode, max_fail=3),
                      bounds=dict(rungs=R1, W=2, events=10, failures="<=3"), goals=("promotion", "failure", "second-bracket", "failed-trial-promoted", "end"),
                      split=(("c1", (0, 1)), ("c2", (0, 1, 2)), ("c3", (0, 1, 2))), budget_s=1800))
    obs.append(Ob("C05.a[manager,min,rungs=(4,1)(2,2)(1,4)|..]", "props.c05:h_manager", dict(rungs=R2, W=2, E=10 if quick else 12, mode="min", max_fail=1),
                  bounds=dict(rungs=R2, W=2, events=10 if quick else 12, failures="<=1"), goals=("promotion", "end"),
                  split=(("c1", (0, 1)), ("c2", (0, 1, 2)), ("c3", (0, 1, 2))), budget_s=2400, may_be_incomplete=not quick))
    # many workers relative to the rung sizes: three or more brackets open at once, a MIDDLE bracket completes a rung first
    R3 = [[[2, 1], [1, 2]]]
    obs.append(Ob("C05.a[manager,W=5,rungs=(2,1)(1,2),3-open-brackets]", "props.c05:h_manager", dict(rungs=R3, W=5, E=9, mode="min", max_fail=0, concrete_metrics=True),
                  bounds=dict(rungs=R3, W=5, events=9, metrics="concrete table (the return ORDER is symbolic)"), goals=("promotion", "second-bracket", "end"),
                  split=(("c5", (0, 1, 2, 3, 4)), ("c6", (0, 1, 2, 3, 4))), budget_s=1800))
    obs.append(Ob("C05.b[scheduler,geometric(1,2),max_t=4]", "props.c05:h_scheduler", dict(geometric=[1, 2], W=2, E=9, mode="min", max_fail=1, max_t=4),
                  bounds=dict(grace=1, rf=2, max_t=4, W=2, events=9, failures="<=1"), goals=("promotion", "failure", "end"),
                  split=(("c1", (0, 1, 2)), ("c2", (0, 1, 2, 3, 4))), budget_s=1800))
    obs.append(Ob("C05.b[scheduler,custom,max,no-ckpt]", "props.c05:h_scheduler", dict(rungs=R1, W=2, E=9, mode="max", max_fail=1, max_t=3, ckpt=False),
                  bounds=dict(rungs=R1, W=2, events=9, failures="<=1"), goals=("promotion", "failure", "end"),
                  split=(("c1", (0, 1, 2)), ("c2", (0, 1, 2, 3, 4))), budget_s=1800))
    obs.append(Ob("C05.b[dehb,geometric(1,2),max_t=2]", "props.c05:h_scheduler", dict(geometric=[1, 2], W=2, E=8, mode="max", max_fail=1, max_t=2, dehb=True),
                  bounds=dict(grace=1, rf=2, max_t=2, W=2, events=8, failures="<=1"), goals=("promotion", "failure", "end"),
                  split=(("c1", (0, 1, 2)), ("c2", (0, 1, 2, 3, 4))), budget_s=1800))
    # DEHB with fewer brackets per iteration than rung levels (the `brackets` argument): unit level with a symbolic number of
    # brackets, and the same through the scheduler API (sequential worker, concrete metric table, two full iterations)
    obs.append(Ob("C05.d[dehb,parent-rung-table,R=4]", "props.c05:h_dehb_parent", dict(R=4), bounds=dict(rung_levels=4, brackets_per_iteration="symbolic in 1..4"),
                  goals=("fewer-brackets-than-rungs", "end"), budget_s=300))
    obs.append(Ob("C05.d[dehb,brackets=1,max_t=4,W=1]", "props.c05:h_scheduler", dict(geometric=[1, 2], W=1, E=40, mode="min", max_fail=0, max_t=4, dehb=True, brackets=1, concrete_metrics=True),
                  bounds=dict(grace=1, rf=2, max_t=4, brackets=1, W=1, events=40, metrics="concrete table"), goals=("end",), budget_s=600))
    # DEHB with two brackets per iteration and three workers: a straggler in the first bracket's base rung lets the SECOND bracket
    # complete a rung first; the first bracket must still resume exactly its own best trials
    obs.append(Ob("C05.d[dehb,brackets=2,max_t=4,W=3,straggler]", "props.c05:h_scheduler",
                  dict(geometric=[1, 2], W=3, E=34, mode="min", max_fail=0, max_t=4, dehb=True, brackets=2, concrete_metrics=True, straggler=[8, 7]),
                  bounds=dict(grace=1, rf=2, max_t=4, brackets=2, W=3, events=34, metrics="concrete table", schedule="FIFO with one straggler: which job (1st..8th) and for how many reports (0..6) are symbolic"),
                  goals=("promotion", "end"), split=(("straggler", tuple(range(8))),), budget_s=600))
    if not quick:
        obs.append(Ob("C05.c[manager,W=3]", "props.c05:h_manager", dict(rungs=R1, W=3, E=11, mode="min", max_fail=2), bounds=dict(rungs=R1, W=3, events=11),
                      goals=("promotion", "end"), split=(("c1", (0, 1)), ("c2", (0, 1, 2)), ("c3", (0, 1, 2, 3))), budget_s=3000, may_be_incomplete=True))
    return obs


def failure_obligations(tier):
    """C13(b)"""
    R1 = [[[3, 1], [1, 3]], [[1, 3]]]
    return [Ob("C13.b[dehb,geometric(1,2),max_t=2,failures<=2]", "props.c05:h_scheduler", dict(geometric=[1, 2], W=2, E=8, mode="min", max_fail=2, max_t=2, dehb=True),
               bounds=dict(grace=1, rf=2, max_t=2, W=2, events=8, failures="<=2"), goals=("failure", "end", "promotion"),
               split=(("c1", (0, 1, 2)), ("c2", (0, 1, 2, 3, 4))), budget_s=1800),
            Ob("C13.b[sync-hyperband,geometric,failures<=2]", "props.c05:h_scheduler", dict(geometric=[1, 2], W=2, E=8, mode="min", max_fail=2, max_t=4),
               bounds=dict(grace=1, rf=2, max_t=4, W=2, events=8, failures="<=2"), goals=("failure", "end", "drained"),
               split=(("c1", (0, 1, 2)), ("c2", (0, 1, 2, 3, 4))), budget_s=1800),
            # rung of 3 -> 1: with <= 2 failures at least one valid result exists, so a failed trial must never be resumed
            Ob("C13.b[sync-hyperband,rungs=(3,1)(1,3),%s,failures<=2]" % "max", "props.c05:h_scheduler", dict(rungs=R1, W=2, E=8, mode="max", max_fail=2, max_t=3),
               bounds=dict(rungs=R1, W=2, events=8, failures="<=2"), goals=("failure", "end", "promotion"),
               split=(("c1", (0, 1, 2)), ("c2", (0, 1, 2, 3, 4))), budget_s=1800),
            Ob("C13.b[sync-hyperband,rungs=(3,1)(1,3),%s,failures<=2]" % "min", "props.c05:h_scheduler", dict(rungs=R1, W=3, E=8, mode="min", max_fail=2, max_t=3),
               bounds=dict(rungs=R1, W=3, events=8, failures="<=2"), goals=("failure", "end", "promotion"),
               split=(("c1", (0, 1, 2)), ("c2", (0, 1, 2, 3, 4))), budget_s=1800)]


def run(tier, seed, only=None):
    obs = obligations(tier)
    if only:
        obs = [o for o in obs if only in o.name]
    return run_property("C05", obs, tier, seed, assumptions=ASSUME,
                        explanation="synchronous bracket manager and scheduler vs rung-filling / top-list reference for every return order, failure subset and metric valuation within bounds")
