"""C01  Worker budget and legal trial life cycle in every tuning run  (also hosts the shared
tuner-level harness used by C02 / C12 / C13(c) / C17).

Whole-run bounded model checking of the REAL Tuner.run() against the nondeterministic scheduler
NDS and the scripted in-memory backend (harness/tunersim.py)."""
from symx.runner import Ob, run_property
from harness.tunersim import Monitor, NDS, ScriptBackend, LoopCallback, make_tuner

from syne_tune.backend.trial_status import Status


def h_loop(sym, W=2, T=2, R=2, K=1, J=0, max_fail=0, tuner_max_failures=1, crit="finished", crit_n=None,
           asynchronous=True, without_delay=True, wait=False, props=("C01", "C02", "C12"), Z=1, P=10,
           decisions=("CONTINUE", "PAUSE", "STOP"), checkpointing=True, max_pause=1, inject_max=0, stop_lag=0, backend_fault_max=0,
           exit_in_busy=False):
    from syne_tune import StoppingCriterion
    mon = Monitor(sym, W, props)
    value_fn = None
    if crit == "min_metric":
        # metric threshold criterion: every reported value is one of {above the threshold, below it, NaN (a diverged run)}
        def value_fn(tid, run, r):
            return (0.5, 0.04, float("nan"))[sym.choice("v_%d_%d_%d" % (tid, run, r), 3)]
    be = ScriptBackend(sym, mon, R=R, K=K, J=J, max_fail=max_fail, Z=Z, P=P, checkpointing=checkpointing, stop_lag=stop_lag, value_fn=value_fn)
    be.exit_in_busy = exit_in_busy
    sch = NDS(sym, mon, T, decisions=decisions, max_pause=max_pause)
    if inject_max:
        sch.inject_at = 1 + sym.choice("inject_at", inject_max)
    if backend_fault_max:
        be.fault_at = 1 + sym.choice("fault_at", backend_fault_max)
    if crit_n is None:
        n = sym.int("crit_n", 0, T)
        for k in range(T + 1):      # concretise by forking
            if n == k:
                n = k
                break
    else:
        n = crit_n
    if crit == "min_metric":
        criterion = StoppingCriterion(min_metric_value={"m": 0.05}, max_num_trials_started=T + 1)
    else:
        kwarg = dict(started="max_num_trials_started", completed="max_num_trials_completed",
                     finished="max_num_trials_finished", evaluations="max_num_evaluations")[crit]
        criterion = StoppingCriterion(**{kwarg: n})
    cb = LoopCallback(be, mon, crit=(crit, n), max_failures=tuner_max_failures, wait=wait)
    tuner = make_tuner(sym, sch, be, [cb], W, criterion, max_failures=tuner_max_failures,
                       asynchronous_scheduling=asynchronous, start_jobs_without_delay=without_delay,
                       wait_trial_completion_when_stopping=wait)
    err = None
    injected = False
    try:
        tuner.run()
    except ValueError as e:
        err = e
    except RuntimeError as e:
        sym.check("injected" in str(e), "C12.unexpected-exception", repr(e))
        injected = True
    except KeyError as e:
        if not backend_fault_max:
            raise
        # stop_all() in the finally block raised while cleaning up after the injected backend fault
        left = [t for t, s_ in be.wst.items() if s_ == Status.in_progress]
        sym.violation("C12.cleanup-fails-after-backend-fault", "a backend that fails to launch trial %s makes stop_all() raise KeyError(%s) in the finally block: "
                      "the original error is masked and trials %s are left running" % (e, e, left))
    if injected:
        # run() left by exception: nothing may be left running, final results must have been stored
        left = be.in_progress()
        sym.check(not left, "C12.left-running", "after an exception in the scheduler, trials %s still occupy a worker" % left)
        sym.check(cb.ended, "C12.results-not-finalised", "on_tuning_end callbacks did not run after an exception")
        sym.check(tuner.tuning_status.num_trials_running == 0, "C12.counter-running", "after exception")
        sym.goal("end")
        return
    # ------------------------------------------------------------------ after run() returned
    if "C01" in mon.props and err is None and not injected:
        # the scheduler is told about every end of a run that happens before tuning stops: a job that ended by itself and
        # was followed by at least one more poll of the loop must have been reported to the scheduler
        for t, f in sorted(be.exit_fetch.items()):
            if be.nfetch > f + 1:
                sym.check(mon.state.get(t) in ("completed", "failed", "stopped", "paused"), "C01.end-not-notified",
                          "the job of trial %d ended by itself before poll %d, the loop polled until %d, but the scheduler was never told (monitor state: %s): the trial is not tracked by the loop" % (
                              t, f + 1, be.nfetch, mon.state.get(t)))
    if "C12" in mon.props:
        left = be.in_progress()
        sym.check(not left, "C12.left-running", "trials %s still occupy a worker after run() returned" % left)
        sym.check(cb.ended, "C12.results-not-finalised", "on_tuning_end callbacks did not run")
        ts = tuner.tuning_status
        st = mon.state
        sym.check(ts.num_trials_started == len(mon.started_ids), "C12.counter-started", "%s vs %s" % (ts.num_trials_started, len(mon.started_ids)))
        sym.check(ts.num_trials_running == 0, "C12.counter-running", str(ts.num_trials_running))
        n_completed = sum(1 for t, s in st.items() if s == "completed" or t in mon.completed_view)
        sym.check(ts.num_trials_completed == n_completed, "C12.counter-completed",
                  "status says %s, monitor %s (completed before STOP seen: %s)" % (ts.num_trials_completed, st, sorted(mon.completed_view)))
        n_failed = sum(1 for s in st.values() if s == "failed")
        sym.check(ts.num_trials_failed == n_failed, "C12.counter-failed", "status says %s, monitor %s" % (ts.num_trials_failed, st))
        # C13: every failure a poll showed to the loop was passed on to the scheduler (once; the double notification of F9 is C01's business)
        for t in sorted(be.seen_failed):
            sym.check(st.get(t) == "failed", "C13.failure-not-notified", "trial %d was reported as failed by a poll, but the scheduler never got on_trial_error (monitor state: %s)" % (t, st.get(t)))
        if err is not None:
            sym.check(n_failed > tuner_max_failures, "C12.spurious-error", repr(err))
            named = [t for t in st if ("Trial - %d failed" % t) in str(err)]
            sym.check(bool(named) and all(st[t] == "failed" for t in named), "C13.error-names-non-failed-trial", str(err))
            sym.goal("failure-limit")
        else:
            sym.check(n_failed <= tuner_max_failures, "C13.failure-limit-ignored", "%d failures > max_failures=%d but run() returned normally" % (n_failed, tuner_max_failures))
        # ended at the first iteration after which the condition held / exhaustion
        if cb.stop_loop is None and err is None:
            exhausted_ok = len(mon.started_ids) >= T and not [t for t, s in st.items() if s == "run"]
            sym.check(exhausted_ok, "C12.ended-early", "run() returned at loop %d although neither criterion nor exhaustion held: %s" % (cb.loops, st))
            sym.goal("exhausted")
        if cb.stop_loop is not None and not wait:
            sym.check(cb.loops == cb.stop_loop, "C12.loop-continues-after-criterion", "criterion held at loop %d, loop ran to %d" % (cb.stop_loop, cb.loops))
        # count budgets overshot by at most W
        if crit == "started":
            sym.check(len(mon.started_ids) <= n + 1 + W, "C12.overshoot", "%d started, budget %d, W=%d" % (len(mon.started_ids), n, W))
    sym.goal("end")


ASSUME = [
    "assume/guarantee: the loop is checked against NDS, a scheduler that may answer any decision (CONTINUE/PAUSE/STOP) and any legal suggestion (start; resume of a trial it paused; None when T trials were started); real schedulers are checked to stay inside that contract in C03-C05/C13",
    "ScriptBackend implements only the abstract hooks of TrialBackend in memory (cumulative per-trial log like LocalBackend's std.out, worker status); start/resume/pause/stop/fetch_status_results/stop_all are the real TrialBackend methods",
    "workers progress between polls: 0..K reports per in-progress trial, exit, failure, chosen by the solver; fairness: at most Z=1 consecutive polls without progress; at most P polls (longer runs are outside the bound)",
    "metric values concrete (the schedule is what matters here); clock: real (no branch of the explored code depends on it: sleep_time=0, count-based criteria)",
    "stub nofs: TuningStatus.__str__ returns '' (no pandas table); save_tuner=False",
]


def obligations(tier, props=("C01", "C02", "C12"), prefix="C01", J=0, fail=1):
    quick = tier == "quick"
    obs = []
    cells = []
    # (W, T, R, K)
    if quick:
        cells = [(2, 2, 1, 1, True, True), (1, 2, 2, 1, True, True), (2, 2, 2, 1, True, True), (2, 2, 1, 1, False, True), (2, 2, 1, 1, True, False)]
    else:
        cells = [(2, 2, 2, 2, True, True), (1, 2, 2, 2, True, True), (2, 3, 1, 1, True, True), (2, 2, 2, 1, False, False), (3, 3, 1, 1, True, True)]
    for (W, T, R, K, asy, wd) in cells:
        p = dict(W=W, T=T, R=R, K=K, J=J, max_fail=fail, asynchronous=asy, without_delay=wd, props=list(props), crit="finished",
                 crit_n=T, P=10 if quick else 14, Z=0 if quick else 1)
        if not wd:
            # start_jobs_without_delay=False promises never to exceed n_workers even while stopped jobs are still shutting down
            p.update(stop_lag=2, T=T + 2, crit_n=T + 2, decisions=["STOP"], max_fail=0)
        name = "%s.a[W=%d,T=%d,R=%d,K=%d%s%s]" % (prefix, W, T, R, K, "" if asy else ",sync", "" if wd else ",ask-backend")
        obs.append(Ob(name, "props.c01:h_loop", p,
                      bounds=dict(W=W, T=T, R=R, K=K, J=J, failures="<=%d" % fail, polls="<=%d" % p["P"], empty_polls_in_a_row=p["Z"], pauses_per_trial="<=1", criterion="max_num_trials_finished=T"),
                      goals=(("end", "failure", "complete") + (("resume",) if R * T > 1 else ())) if wd else ("end", "stopping-job-still-busy"),
                      split=((("k_p2_t0", (0, 1, 2)[:K + 1]), ("end_p2_t0", (0, 1, 2)), ("dec_3", (0, 1, 2)), ("dec_4", (0, 1, 2))) if wd else
                             (("k_p2_t0", (0, 1)), ("k_p2_t1", (0, 1)), ("stoplag_0", (0, 1)), ("stoplag_1", (0, 1)))),
                      budget_s=2400, may_be_incomplete=not quick))
    # start_jobs_without_delay=False and a job that ends right between the poll and busy_trial_ids(): the backend then reports
    # fewer busy workers than the loop tracks
    p = dict(W=2, T=3, R=1, K=1, J=0, max_fail=0, asynchronous=True, without_delay=False, props=list(props), crit="finished", crit_n=3, P=8, Z=0,
             decisions=["CONTINUE"], exit_in_busy=True)
    obs.append(Ob("%s.a[W=2,T=3,R=1,K=1,ask-backend,exit-between-poll-and-scheduling]" % prefix, "props.c01:h_loop", p,
                  bounds=dict(W=2, T=3, R=1, K=1, polls="<=8", criterion="max_num_trials_finished=3", decisions="CONTINUE only"),
                  goals=("end", "exit-between-poll-and-scheduling"), split=(("k_p2_t0", (0, 1)), ("k_p2_t1", (0, 1)), ("end_p2_t0", (0, 1)), ("end_p2_t1", (0, 1))), budget_s=1200))
    return obs


def failure_obligations(tier):
    """C13(c): tuner level max_failures handling"""
    obs = []
    for mf in (0, 1):
        p = dict(W=2, T=2, R=1, K=1, max_fail=mf + 1, tuner_max_failures=mf, props=["C12"], crit="finished", crit_n=2, Z=0)
        obs.append(Ob("C13.c[tuner,max_failures=%d]" % mf, "props.c01:h_loop", p,
                      bounds=dict(W=2, T=2, R=1, K=1, failures="<=%d" % (mf + 1), max_failures=mf),
                      goals=("end", "failure", "failure-limit"),
                      split=(("dec_3", (0, 1, 2)),), budget_s=1200))
    # wait_trial_completion_when_stopping=True: the limit is exceeded while another trial is still running and the loop goes on
    # for several iterations before it ends -- the error must still be raised and name a failed trial
    p = dict(W=2, T=2, R=1, K=1, max_fail=1, tuner_max_failures=0, wait=True, props=["C12"], crit="finished", crit_n=2, Z=0)
    obs.append(Ob("C13.c[tuner,max_failures=0,wait_trial_completion]", "props.c01:h_loop", p,
                  bounds=dict(W=2, T=2, R=1, K=1, failures="<=1", max_failures=0, wait_trial_completion_when_stopping=True),
                  goals=("end", "failure", "failure-limit"), split=(("dec_3", (0, 1, 2)),), budget_s=1200))
    return obs


def run(tier, seed, only=None):
    obs = obligations(tier, props=("C01",), prefix="C01") + sim_obligations(tier)
    if only:
        obs = [o for o in obs if only in o.name]
    return run_property("C01", obs, tier, seed, assumptions=ASSUME,
                        explanation="whole-run bounded model checking of the real Tuner.run with nondeterministic scheduler and scripted backend; life-cycle / notification-order automata evaluated online")


# ---------------------------------------------------------------------------------------------
# C01.b  real SimulatorBackend (event heap, busy bookkeeping, blocking stop) inside the real loop
# ---------------------------------------------------------------------------------------------
def h_loop_sim(sym, W=2, T=3, F=3, ckpt=True, max_pause=1, wait=False):
    import os
    from syne_tune import StoppingCriterion
    from syne_tune.blackbox_repository.simulated_tabular_backend import UserBlackboxBackend
    from syne_tune.backend.simulator_backend.simulator_backend import SimulatorConfig
    from syne_tune.backend.simulator_backend.simulator_callback import SimulatorCallback
    from syne_tune.optimizer.scheduler import TrialSuggestion
    from props.c10 import _install_clock, _blackbox
    _install_clock(sym, False)
    bb = _blackbox(sym, F, ncfg=3, concrete_from=0)       # concrete table: trials of different speed
    sleep = (0.3, 2.0, 7.0)[sym.choice("tuner_sleep", 3)]
    mon = Monitor(sym, W, ("C01",))

    class SimBackend(UserBlackboxBackend):
        """the real simulator backend; overrides only notify the monitor"""

        def in_progress(self_):
            return [t for t, _ in self_.busy_trial_ids()]

        def reports_of_run(self_, tid, run):
            return len(mon.delivered.get((tid, run), []))

        def start_trial(self_, config, checkpoint_trial_id=None):
            tr = super().start_trial(config, checkpoint_trial_id)
            mon.cfg[tr.trial_id] = dict(config)
            mon.b_start(tr.trial_id, self_)
            return tr

        def resume_trial(self_, trial_id, new_config=None):
            mon.b_resume(trial_id, self_)
            return super().resume_trial(trial_id, new_config)

        def _pause_trial(self_, trial_id, result):
            mon.b_pause(trial_id)
            return super()._pause_trial(trial_id, result)

        def _stop_trial(self_, trial_id, result):
            mon.b_stop(trial_id)
            return super()._stop_trial(trial_id, result)

    be = SimBackend(blackbox=bb, elapsed_time_attr="et", max_resource_attr="epochs", support_checkpointing=ckpt,
                    simulator_config=SimulatorConfig(delay_on_trial_result=0.1, delay_complete_after_final_report=0.5,
                                                     delay_complete_after_stop=0.5, delay_start=0.2, delay_stop=0.3),
                    tuner_sleep_time=sleep)
    level = {}

    class SimNDS(NDS):
        def _suggest(self_, trial_id):
            self_.n += 1
            if self_.paused and sym.bool("resume_%d" % self_.n):
                t = self_.paused.pop(0)
                return TrialSuggestion.resume_suggestion(t, config={"c": t % 3, "epochs": F})
            if trial_id >= self_.T:
                return None
            return TrialSuggestion.start_suggestion({"c": trial_id % 3, "epochs": F})

        def on_trial_result(self_, trial, result):
            tid = trial.trial_id
            run = mon.cur_run[tid]
            lv = result["epoch"]
            prev = level.get((tid, run))
            if prev is None:
                first = 1 if (run == 0 or not ckpt) else level.get((tid, run - 1), 0) + 1
                sym.check(lv == first, "SIM.first-level-of-run", "trial %d run %d starts reporting at level %s, expected %s" % (tid, run, lv, first))
            else:
                sym.check(lv == prev + 1, "SIM.levels-not-consecutive", "trial %d run %d: level %s after %s" % (tid, run, lv, prev))
            level[(tid, run)] = lv
            n = len(mon.delivered.get((tid, run), []))
            result = dict(result, rid="%d:%d:%d:0" % (tid, run, n))
            if lv >= F:
                # contract of real pause/resume schedulers: no PAUSE at the maximum resource (nothing would be left to run)
                self_.npause[tid] = self_.max_pause
            return NDS.on_trial_result(self_, trial, result)
    sch = SimNDS(sym, mon, T, max_pause=max_pause)
    from syne_tune.config_space import choice as _choice
    sch.config_space = {"c": _choice([0, 1, 2]), "epochs": F}
    cb = SimulatorCallback()
    cb.store_results = lambda: None       # stub nofs: no pandas / csv

    from syne_tune.tuner_callback import TunerCallback

    class EndFlag(TunerCallback):
        def on_tuning_end(self_):
            mon.tuning_over = True
    tuner = make_tuner(sym, sch, be, [EndFlag(), cb], W, StoppingCriterion(max_num_trials_finished=T - 1), wait_trial_completion_when_stopping=wait)
    tuner.run()
    sym.goal("end")
    if any(k[1] > 0 for k in level):
        sym.goal("resumed-run-reports")


def sim_obligations(tier):
    quick = tier == "quick"
    obs = []
    for ckpt in (True, False):
        obs.append(Ob("C01.b[simulator,W=2,T=%d,F=3,ckpt=%s]" % (2 if quick else 3, ckpt), "props.c01:h_loop_sim", dict(W=2, T=2 if quick else 3, F=3, ckpt=ckpt),
                      bounds=dict(W=2, T=2 if quick else 3, fidelities=3, table="concrete, 3 speeds", tuner_sleep_time="0.3 / 2 / 7 s", pauses_per_trial="<=1"),
                      goals=("end", "resume", "resumed-run-reports"), split=(("tuner_sleep", (0, 1, 2)), ("dec_3", (0, 1, 2)), ("dec_4", (0, 1, 2))),
                      budget_s=2400, may_be_incomplete=not quick))
    return obs
