"""C18  Metrics reported by a training script arrive unchanged at the tuner.

(a) framing (E3, cvc5 strings, unbounded length): the regular expression and the tag are EXTRACTED
    from syne_tune/report.py (AST) on every run; for a report line  pre ++ "[tag]: " ++ "{" body "}"
    (no newline inside, pre not containing "[tag]: {") the leftmost-greedy match captures exactly
    the payload.  Reachability twins (forged tag in pre; text after the payload) must be sat and
    their models are replayed through the real retrieve().
(b) reporter side (E1): Reporter.__call__ / _serialize_report_dict / dump_json_with_numpy for a
    kind-indexed family of values and key prefixes; reserved keys and unserialisable values must be
    rejected, accepted reports must parse back to the plain dictionary; counter strictly
    increasing, time stamps non-decreasing."""
import ast
import json
import os
import re
import subprocess
import tempfile
import time

from symx.runner import Ob, run_property, WORK


# ------------------------------------------------------------------------------------------
# (a) framing
# ------------------------------------------------------------------------------------------
class _PatProxy:
    """stands in for a compiled pattern held by syne_tune.report; records that it was used"""

    def __init__(self, pat, log):
        self._pat, self._log = pat, log

    def __getattr__(self, name):
        real = getattr(self._pat, name)
        if name in ("findall", "finditer", "search", "match", "fullmatch", "sub", "split"):
            def rec(*a, **k):
                self._log.append((self._pat.pattern, int(self._pat.flags & ~re.UNICODE)))
                return real(*a, **k)
            return rec
        return real


class _ReProxy:
    """stands in for the ``re`` module inside syne_tune.report while retrieve() runs on a probe"""

    def __init__(self, log):
        self._log = log

    def __getattr__(self, name):
        real = getattr(re, name)
        if name == "compile":
            return lambda pattern, flags=0: _PatProxy(real(pattern, flags), self._log)
        if name in ("findall", "finditer", "search", "match", "fullmatch", "sub", "split"):
            def rec(pattern, *a, **k):
                if isinstance(pattern, _PatProxy):
                    return getattr(pattern, name)(*a, **k)
                flags = k.get("flags", 0)
                extra = a[{"sub": 3, "split": 2}.get(name, 1):]
                if not flags and extra:
                    flags = extra[0]
                comp = pattern if isinstance(pattern, re.Pattern) else re.compile(pattern, flags)
                self._log.append((comp.pattern, int(comp.flags & ~re.UNICODE)))
                return real(pattern, *a, **k)
            return rec
        return real


def extract_regex():
    """the regular expression (and flags) retrieve() REALLY applies: retrieve() is run on a probe line while the ``re`` module
    seen by syne_tune.report and every compiled pattern among its globals are replaced by recording proxies (independent of
    how the source spells the pattern: literal, local names, module constant, pre-compiled)"""
    import syne_tune.report as R
    import syne_tune.constants as K
    log = []
    saved = {}
    for name, val in list(vars(R).items()):
        if isinstance(val, re.Pattern):
            saved[name] = val
            setattr(R, name, _PatProxy(val, log))
    saved_re = getattr(R, "re", None)
    R.re = _ReProxy(log)
    try:
        R.retrieve(["[%s]: {\"probe\": 1}" % K.ST_SAGEMAKER_METRIC_TAG])
    finally:
        for name, val in saved.items():
            setattr(R, name, val)
        if saved_re is not None:
            R.re = saved_re
        else:
            del R.re
    used = sorted(set(log))
    if len(used) != 1:
        raise RuntimeError("retrieve() applies %d regular expressions to its input, expected exactly one: %r" % (len(used), used))
    pattern, flags = used[0]
    return pattern, K.ST_SAGEMAKER_METRIC_TAG, int(flags)


def parse_pattern(pattern, flags=0):
    """supported shapes:  [^] <escaped literal prefix> ( \\{ BODY \\} )   with flags 0 or re.MULTILINE, where BODY is the greedy
    ``.*`` or the tempered ``(?:(?!<escaped literal>).)*`` (no position of the body may start that literal)
    -> (literal prefix text, anchored at line start?, forbidden literal or None)"""
    if flags & ~re.MULTILINE:
        raise RuntimeError("unsupported regex flags: %r" % flags)
    anchored = pattern.startswith("^")
    body = pattern[1:] if anchored else pattern
    litre = r"((?:\\.|[^\\()\[\]{}.*+?|^$])*)"
    m = re.fullmatch(litre + r"\(\\\{\.\*\\\}\)", body)
    forb = None
    if not m:
        m = re.fullmatch(litre + r"\(\\\{\(\?:\(\?!" + litre + r"\)\.\)\*\\\}\)", body)
        if not m:
            raise RuntimeError("unsupported regex shape: %r" % pattern)
        forb = re.sub(r"\\(.)", r"\1", m.group(2))
        if not forb or "}" in forb:
            raise RuntimeError("unsupported regex shape (lookahead literal): %r" % pattern)
    lit = re.sub(r"\\(.)", r"\1", m.group(1))
    return lit, anchored, forb


def smt_str(s):
    return '"' + "".join(c if 32 <= ord(c) < 127 and c not in '"\\' else "\\u{%x}" % ord(c) for c in s) + '"'


def cvc5(query, timeout=120):
    os.makedirs(WORK, exist_ok=True)
    fd, path = tempfile.mkstemp(suffix=".smt2", dir=WORK)
    with os.fdopen(fd, "w") as f:
        f.write(query)
    t0 = time.time()
    try:
        out = subprocess.run(["cvc5", "--strings-exp", "--produce-models", path], capture_output=True, text=True, timeout=timeout)
        txt = out.stdout + out.stderr
    except subprocess.TimeoutExpired:
        txt = "timeout"
    return txt, time.time() - t0


def unescape(s):
    return re.sub(r"\\u\{([0-9a-fA-F]+)\}", lambda m: chr(int(m.group(1), 16)), s)


def model_values(txt):
    vals = {}
    for m in re.finditer(r'\((\w+) "((?:[^"]|"")*)"\)', txt):
        vals[m.group(1)] = unescape(m.group(2).replace('""', '"'))
    return vals


JSON_FAMILY = """(declare-const js String)
(assert (= body (str.++ "\\u{22}k\\u{22}: \\u{22}" js "\\u{22}")))
(assert (str.in_re js (re.* (re.union (re.range " " "!") (re.range "#" "[") (re.range "]" "~")))))
"""


def framing(ob_d):
    from syne_tune.report import retrieve
    pattern, tag, flags = extract_regex()
    lit, anchored, forb = parse_pattern(pattern, flags)        # e.g. "[tune-metric]: "
    start = lit + "{"
    L = len(lit)
    head = """(set-logic QF_SLIA)
(declare-const pre String)
(declare-const body String)
(declare-const suf String)
(declare-const a String)
(declare-const b String)
(define-fun tag () String %s)
(define-fun payload () String (str.++ "{" body "}"))
(define-fun line () String (str.++ pre tag payload suf))
(assert (not (str.contains pre "\\u{a}")))
(assert (not (str.contains body "\\u{a}")))
(assert (not (str.contains suf "\\u{a}")))
(define-fun p0 () Int (str.indexof line %s 0))
; an anchored pattern only matches where a line starts (the text before the tag is on the same line)
(define-fun p () Int %s)
; the body may extend up to q: the end of the line (greedy .*), or the first position after the opening brace at which the
; literal of a negative lookahead starts (tempered dot)
(define-fun q0 () Int %s)
(define-fun q () Int (ite (< q0 0) (str.len line) q0))
(define-fun region () String (str.substr line 0 q))
; greedy: up to the LAST closing brace of the region
(assert (or (and (not (str.contains region "}")) (= a "") (= b region))
            (and (= region (str.++ a "}" b)) (not (str.contains b "}")))))
(define-fun cap () String (ite (and (>= p 0) (str.contains region "}") (> (+ (str.len a) 1) (+ p %d 1)))
                               (str.substr line (+ p %d) (- (+ (str.len a) 1) (+ p %d))) "<no match>"))
""" % (smt_str(lit), smt_str(start), "(ite (= p0 0) 0 (- 1))" if anchored else "p0",
       ("(ite (>= p 0) (str.indexof line %s (+ p %d 1)) (- 1))" % (smt_str(forb), L)) if forb else "(- 1)", L, L, L)
    queries = [
        ("main: protocol line (nothing after the payload, no forged tag before it) -> capture == payload", "unsat",
         '(assert (= suf ""))\n(assert (not (str.contains pre %s)))\n(assert (not (= cap payload)))\n' % smt_str(start)),
        ("twin: forged tag inside the prefix is reachable and changes the capture", "sat",
         '(assert (= suf ""))\n(assert (str.contains pre %s))\n(assert (not (= cap payload)))\n' % smt_str(start)),
        ("twin: text containing a brace after the payload changes the capture (framing assumption: print ends the line)", "sat",
         '(assert (not (str.contains pre %s)))\n(assert (str.contains suf "}"))\n(assert (<= (str.len suf) 4))\n(assert (not (= cap payload)))\n' % smt_str(start)),
        ("payload may itself contain the tag and braces: capture still == payload", "unsat",
         '(assert (= suf ""))\n(assert (not (str.contains pre %s)))\n(assert (str.contains body %s))\n(assert (not (= cap payload)))\n' % (smt_str(start), smt_str(start))),
        ("vacuity: the protocol assumptions are satisfiable with a non-trivial prefix and body", "sat",
         '(assert (= suf ""))\n(assert (not (str.contains pre %s)))\n(assert (>= (str.len pre) 3))\n(assert (str.contains body "}"))\n(assert (= cap payload))\n' % smt_str(start)),
    ]
    st = dict(paths=0, ok=0, ignored=0, unknown=0, known=0, failed=0, exhausted=True, decisions=0, fails=[], goals={}, goals_seen={}, known_codes={},
              samples=[], solver_queries=0, solver_s=0.0, solver_unknown=0, realizations=0, realization_sites={}, unknown_reasons={}, validated=0,
              functions=["syne_tune/report.py::retrieve"], error=None)
    for name, expect, body in queries:
        q = head + body + "(check-sat)\n(get-value (pre body suf))\n"
        txt, dt = cvc5(q)
        st["solver_queries"] += 1
        st["solver_s"] += dt
        st["paths"] += 1
        st["decisions"] += 1
        first = txt.strip().splitlines()[0] if txt.strip() else "no output"
        if "(error" in txt and first not in ("unsat",):
            # get-value after unsat prints an error line: only that one is tolerated
            if not (first == "unsat" and txt.count("(error") == 1):
                st["unknown"] += 1
                st["unknown_reasons"][name + " :: " + txt[:160].replace("\n", " ")] = 1
                st["exhausted"] = False
                continue
        if first not in ("sat", "unsat"):
            st["unknown"] += 1
            st["unknown_reasons"][name + " :: " + first[:160]] = 1
            st["exhausted"] = False
            continue
        sample = dict(query=name, expected=expect, answer=first, seconds=round(dt, 2), regex=pattern)
        if first == "sat":
            mv = model_values(txt)
            line = mv.get("pre", "") + lit + "{" + mv.get("body", "") + "}" + mv.get("suf", "")
            got = re.findall(pattern, line, flags=flags)
            payload = "{" + mv.get("body", "") + "}"
            sample.update(model=mv, real_findall=got)
            st["validated"] += 1
            if expect == "sat":
                # twins: the real regex must behave as the model says
                agrees = (got != [payload]) if "twin" in name else (got == [payload])
                if not agrees:
                    st["error"] = "regex model disagrees with re.findall on %r: %r" % (line, got)
            else:
                # a model for a query that must be unsat: report only if the REAL retrieve() mis-parses a report
                good_json = True
                try:
                    json.loads(payload)
                except Exception:
                    good_json = False
                real = retrieve([line]) if good_json else None
                if got == [payload]:
                    st["error"] = "cvc5 model does not reproduce with re.findall: %r" % (mv,)
                elif good_json:
                    st["failed"] += 1
                    st["fails"].append(dict(code="C18.framing", msg="log line %r: the regex captures %r, the reported payload is %r (retrieve() -> %r)" % (line, got, payload, real),
                                            model=mv, reproduced=True))
                else:
                    # the lemma 'capture == payload for EVERY brace-delimited text' fails, but only shown for a text that is not
                    # JSON, which no report can be: decide the property on a family of valid JSON payloads {"k": "<s>"}
                    # (s: any printable ASCII without quote / backslash, so the tag text and braces are included)
                    q2 = head + body + JSON_FAMILY + "(check-sat)\n(get-value (pre body suf))\n"
                    txt2, dt2 = cvc5(q2, timeout=300)
                    st["solver_queries"] += 1
                    st["solver_s"] += dt2
                    first2 = txt2.strip().splitlines()[0] if txt2.strip() else "no output"
                    sample.update(lemma_fails_for_non_json=line, json_family_answer=first2, json_family_seconds=round(dt2, 2))
                    if first2 == "unsat":
                        first = "unsat"         # holds for every report of the family
                    elif first2 == "sat":
                        mv = model_values(txt2)
                        line = mv.get("pre", "") + lit + "{" + mv.get("body", "") + "}" + mv.get("suf", "")
                        payload = "{" + mv.get("body", "") + "}"
                        try:
                            want = [json.loads(payload)]
                        except Exception:
                            want = None
                        try:
                            real = retrieve([line])
                        except Exception as e:   # noqa
                            real = "raises %s" % type(e).__name__
                        if want is None:
                            st["error"] = "JSON family model is not JSON: %r" % (payload,)
                        elif real != want:
                            st["failed"] += 1
                            st["fails"].append(dict(code="C18.framing", msg="log line %r: reported %r, retrieve() gives %r" % (line, want, real), model=mv, reproduced=True))
                        else:
                            st["error"] = "cvc5 model (JSON family) does not reproduce with retrieve(): %r" % (mv,)
                    else:
                        st["unknown"] += 1
                        st["unknown_reasons"][name + " :: json family :: " + first2[:120]] = 1
                        st["exhausted"] = False
                        continue
        else:
            if expect == "sat":
                st["error"] = "reachability twin unexpectedly unsat: %s" % name
        if first == expect:
            st["ok"] += 1
        st["samples"].append(sample)
    return st


# ------------------------------------------------------------------------------------------
# (b) reporter side
# ------------------------------------------------------------------------------------------
class _Obj:
    pass


def _value(kind):
    import numpy as np
    return [
        ("int", 3, True, 3),
        ("float", 0.25, True, 0.25),
        ("bool", True, True, True),
        ("str-with-braces", "a}{[tune-metric]: {", True, "a}{[tune-metric]: {"),
        ("nested", {"l": [1, {"z": 2.5}], "s": "\n\"q\""}, True, {"l": [1, {"z": 2.5}], "s": "\n\"q\""}),
        ("np.int64", np.int64(7), True, 7),
        ("np.float32", np.float32(0.5), True, 0.5),
        ("np.bool_", np.bool_(True), True, True),
        ("list-of-np", [np.int32(1), np.float64(2.0)], True, [1, 2.0]),
        ("np.ndarray", np.array([1.0, 2.0]), False, None),
        ("set", {1, 2}, False, None),
        ("object", _Obj(), False, None),
        ("nested-set", {"a": [1, {2}]}, False, None),
    ][kind]


NKINDS = 13


def h_reporter(sym, N=2):
    import io
    import contextlib
    import syne_tune.report as R
    from syne_tune.constants import ST_WORKER_ITER, ST_WORKER_TIMESTAMP, ST_WORKER_TIME
    clock = {"t": 100.0}

    def now():
        clock["t"] += sym.choice("dt%d" % len(calls), 2) * 0.5
        return clock["t"]
    calls = []
    saved = (R.time, R.perf_counter)
    R.time = now
    R.perf_counter = now
    try:
        rep = R.Reporter(add_cost=False)
        out_lines = []
        expected = []
        for i in range(N):
            calls.append(i)
            if i == 0:
                kind = sym.choice("kind%d" % i, NKINDS)
                keyk = sym.choice("key%d" % i, 3)
            else:
                # later reports: a valid-kind subset (they exist to exercise counter / time stamps / adjacency)
                kind = (0, 3, 5)[sym.choice("kind%d" % i, 3)]
                keyk = 0
            name, val, ok, plain = _value(kind)
            key = ["loss", "st_loss", "s"][keyk]
            buf = io.StringIO()
            raised = None
            noise = ["", "progress 50% } ", "other line {\n"][sym.choice("noise%d" % i, 3)]
            if noise and not noise.endswith("\n"):
                sym.goal("noise-without-newline")
            try:
                with contextlib.redirect_stdout(buf):
                    print(noise, end="")        # arbitrary other output on the same stream, with or without trailing newline
                    rep(**{key: val, "epoch": i + 1})
            except (TypeError, AssertionError) as e:
                raised = e
            txt = buf.getvalue()
            if keyk == 1:
                sym.check(raised is not None, "C18.reserved-key-accepted", "key %r accepted" % key)
                sym.check("[tune-metric]" not in txt, "C18.rejected-report-printed", txt[:100])
                sym.goal("reserved-rejected")
                continue
            if not ok:
                sym.check(raised is not None, "C18.unserialisable-accepted", "value of kind %s was reported as %r instead of being rejected" % (name, txt.strip()[-80:]))
                sym.check("[tune-metric]" not in txt, "C18.rejected-report-printed", txt[:100])
                sym.goal("unserialisable-rejected")
                continue
            sym.check(raised is None, "C18.valid-report-rejected", "kind %s: %r" % (name, raised))
            out_lines.append(txt)
            expected.append({key: plain, "epoch": i + 1})
            sym.goal("accepted")
        # parse everything back with the real retrieve(); other output interleaved
        log = []
        for t in out_lines:
            log.append("some other output } {")
            log.extend(t.rstrip("\n").split("\n"))
        got = R.retrieve(log)
        sym.check(len(got) == len(expected), "C18.report-count", "%d parsed, %d reported" % (len(got), len(expected)))
        last_iter, last_ts = -1, -1.0
        for g, e in zip(got, expected):
            for k, v in e.items():
                sym.check(k in g and g[k] == v, "C18.value-changed", "key %s: reported %r, parsed %r" % (k, v, g.get(k)))
            sym.check(g[ST_WORKER_ITER] > last_iter, "C18.counter-not-increasing", "")
            sym.check(g[ST_WORKER_TIMESTAMP] >= last_ts, "C18.timestamp-decreasing", "")
            last_iter, last_ts = g[ST_WORKER_ITER], g[ST_WORKER_TIMESTAMP]
        sym.goal("end")
    finally:
        R.time, R.perf_counter = saved


ASSUME = [
    "framing protocol: one report per line, the payload ends the line (print), the text before the tag on that line does not contain '<tag>{' (a forged tag is a report by definition); both assumptions are shown to be necessary by satisfiable twins replayed through the real retrieve()",
    "regex semantics model (leftmost start, greedy .* to the last '}' of the line, '.' does not match newline) is written by hand and differential-tested against re.findall on every cvc5 model",
    "cvc5 1.0.3 QF_SLIA with --strings-exp, unbounded string lengths; z3 is not used for strings (wrong 'sat' / timeouts observed, DESIGN 2.3)",
    "reporter side: values from a kind-indexed family (13 kinds), keys from {loss, st_loss, s}, clock stub advancing by a symbolic 0/0.5 s; string CONTENT is concrete (json's C encoder would realise symbolic strings), so string payloads are bug-hunting only while kinds / key prefixes / call counts are exhaustive",
    "oversized reports (> 50 kB) are not exercised",
]


def obligations(tier):
    obs = [Ob("C18.a[framing,cvc5]", "props.c18:framing", {}, bounds=dict(lines=1, length="unbounded", queries=5), kind="direct", budget_s=600),
           Ob("C18.b[reporter,N=2]", "props.c18:h_reporter", dict(N=2), bounds=dict(reports=2, first_report="13 kinds x 3 keys", later_reports="3 valid kinds", other_output="none / without newline / with newline before each report"),
              goals=("accepted", "reserved-rejected", "noise-without-newline", "end"), split=(("kind0", tuple(range(NKINDS))),), budget_s=900)]
    if tier != "quick":
        obs.append(Ob("C18.b[reporter,N=3]", "props.c18:h_reporter", dict(N=3), bounds=dict(reports=3, kinds=NKINDS, keys=3),
                      goals=("accepted", "end"), split=(("kind0", tuple(range(NKINDS))), ("key0", (0, 1, 2))), budget_s=1800, may_be_incomplete=True))
    return obs


def run(tier, seed, only=None):
    obs = obligations(tier)
    if only:
        obs = [o for o in obs if only in o.name]
    return run_property("C18", obs, tier, seed, assumptions=ASSUME,
                        explanation="framing theorem in cvc5 string theory (unbounded length) generated from the regex literal in the source + reporter-side kinds/keys exploration")
