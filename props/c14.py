"""C14  Multi-fidelity surrogate data: each observation once, only live pending entries.

Real code: HyperbandScheduler (stopping / promotion) + GPMultiFidelitySearcher bookkeeping
(register_pending, _update, remove_case, cleanup_pending, evaluation_failed) +
ModelStateTransformer / TuningJobState.  The GP is constructed but never fitted
(num_init_random keeps get_config random within the trial bound)."""
from symx.runner import Ob, run_property
from symx import stubs
from harness.common import make, ref_rung_levels, OneHotBrackets
from harness.schedsim import SchedSim, Hooks


class C14Hooks(Hooks):
    def __init__(self, sym, sch, mode, policy, levels, max_t, nb):
        self.sym, self.sch, self.mode, self.policy = sym, sch, mode, policy
        self.levels, self.max_t = levels, max_t
        self.reported = {}     # (tid, level) -> value (first non-ignored report)
        self.last = {}         # tid -> last non-ignored level
        self.nb = nb
        self.dist = None

    def before_suggest(self, sim, new_id):
        if self.dist is not None:
            self.dist.next = self.sym.choice("b%d" % new_id, self.nb)

    def before_report(self, sim, tid, r, v):
        ignored = (not sim.checkpointing) and sim.run_no[tid] > 0 and r <= sim.resume_from_of.get(tid, 0)
        if not ignored:
            if (tid, r) not in self.reported:
                self.reported[(tid, r)] = v
            self.last[tid] = r

    def expected_levels(self, tid):
        rep = sorted(r for (t, r) in self.reported if t == tid)
        rungs = set(self.levels) | {self.max_t}
        if self.policy == "all":
            return set(rep)
        keep = {r for r in rep if r in rungs}
        if self.policy == "rungs_and_last" and tid in self.last:
            keep.add(self.last[tid])
        return keep

    def after(self, sim, kind, tid, info):
        sym = self.sym
        if kind == "resume":
            sim.resume_from_of[tid] = sim.resume_from
        st = self.sch.searcher.state_transformer.state
        seen = {}
        for ev in st.trials_evaluations:
            tgt = ev.metrics.get("target", {})
            for rs, val in tgt.items():
                key = (int(ev.trial_id), int(rs))
                sym.check(key not in seen, "C14.duplicate-observation", "trial/level %s observed twice" % (key,))
                seen[key] = val
        for key, val in seen.items():
            sym.check(key in self.reported, "C14.observation-never-reported", "after %s t%s: %s in data but never reported" % (kind, tid, key))
            v = self.reported[key]
            exp = v if self.mode == "min" else 1.0 - v
            sym.check(val == exp, "C14.observation-value", "observation at %s differs from the reported metric" % (key,))
        for t in sim.trials:
            got = {r for (tt, r) in seen if tt == t}
            exp = self.expected_levels(t)
            code = "C14.policy-levels"
            if kind == "complete" and t == tid and self.policy == "rungs" and got - exp == {self.last.get(t)}:
                # the one deviation known on the unchanged tree (known_findings.json): on_trial_complete feeds the FINAL result
                # of a completed trial to the searcher although its level is not a rung level
                code = "C14.policy-levels[final-result-on-completion]"
            sym.check(got == exp, code, "after %s t%s: trial %d observed levels %s, policy %s expects %s" % (
                kind, tid, t, sorted(got), self.policy, sorted(exp)))
        pend = [(int(p.trial_id), int(p.resource)) for p in st.pending_evaluations]
        for (t, r) in pend:
            sym.check(t in sim.running, "C14.pending-not-running",
                      "after %s t%s: pending entry (%d,%d) but running=%s" % (kind, tid, t, r, sim.running))
            sym.check((t, r) not in seen, "C14.pending-at-observed-level", "pending (%d,%d) is already observed" % (t, r))
        sym.check(len(set(pend)) == len(pend), "C14.pending-duplicate", str(pend))
        if kind == "complete":
            sym.goal("complete")
        if kind == "fail":
            sym.goal("failure")
        if kind == "resume":
            sym.goal("resume")
        if kind == "report" and info[2] == "STOP":
            sym.goal("stop")
        if kind == "report" and info[2] == "PAUSE":
            sym.goal("pause")

    def end(self, sim):
        self.sym.goal("end")


def h_data(sym, typ="stopping", mode="min", policy="rungs", myopic=False, ckpt=True, B=1, T=3, E=7, W=2,
           max_fail=0, max_t=4, grace=1, rf=2, allow_complete=False):
    from syne_tune.optimizer.schedulers.hyperband import HyperbandScheduler
    from syne_tune.config_space import uniform
    stubs.shim_modules(["syne_tune.optimizer.schedulers.searchers.model_based_searcher"])
    cs = {"x": uniform(0, 1), "epochs": max_t}
    if typ == "sync":
        from syne_tune.optimizer.schedulers.synchronous.hyperband import SynchronousHyperbandScheduler
        stubs.shim_modules(["syne_tune.optimizer.schedulers.synchronous.hyperband_bracket", "syne_tune.optimizer.schedulers.synchronous.hyperband"])
        sch = make(SynchronousHyperbandScheduler, cs, bracket_rungs=[[(2, 1), (1, 2)]], searcher="bayesopt", metric="m", mode=mode,
                   resource_attr="r", max_resource_attr="epochs", random_seed=1, searcher_data=policy,
                   search_options={"debug_log": False, "num_init_random": 10})
    else:
        sch = make(HyperbandScheduler, cs, searcher="bayesopt", metric="m", mode=mode, resource_attr="r",
                   max_resource_attr="epochs", type=typ, grace_period=grace, reduction_factor=rf, random_seed=1,
                   brackets=B, searcher_data=policy, register_pending_myopic=myopic,
                   search_options={"debug_log": False, "num_init_random": 10})
    levels = ref_rung_levels(grace, max_t, rf=rf) if typ != "sync" else [1, 2]
    nb = min(B, len(levels) + 1)
    hooks = C14Hooks(sym, sch, mode, policy, levels, max_t, nb)
    if nb > 1:
        hooks.dist = OneHotBrackets(nb)
        sch.bracket_distribution = hooks.dist
    sim = SchedSim(sym, sch, W=W, T=T, E=E, max_t=max_t, checkpointing=ckpt, max_fail=max_fail, code="C14", allow_complete=allow_complete)
    sim.resume_from_of = {}
    sim.run(hooks)


ASSUME = [
    "exact real arithmetic for metric values",
    "the GP surrogate is never fitted (num_init_random=10 > trial bound): only the searcher's data/pending bookkeeping is executed; data set = searcher.state_transformer.state",
    "max mode: minimisation convention = documented default map 1 - x",
    "a training script without checkpointing re-reports levels 1..resume_from after a resume; those re-reports may carry different values and must be ignored",
    "stub fmt; stub npshim on model_based_searcher (np.isnan etc. on a symbolic scalar evaluated symbolically)",
    "HyperTune / DyHPO searchers are outside (they need a model fit from the first rung)",
]


def obligations(tier):
    quick = tier == "quick"
    obs = []
    T = 3
    E = 7 if quick else 8
    cfgs = []
    for policy in ("rungs", "all", "rungs_and_last"):
        cfgs.append(dict(typ="stopping", policy=policy, myopic=False, mode="min"))
        cfgs.append(dict(typ="promotion", policy=policy, myopic=False, ckpt=True, mode="max" if policy == "all" else "min"))
    cfgs.append(dict(typ="promotion", policy="all", myopic=True, ckpt=False))
    cfgs.append(dict(typ="promotion", policy="rungs_and_last", myopic=False, ckpt=False))
    cfgs.append(dict(typ="stopping", policy="all", myopic=True, mode="max"))
    cfgs.append(dict(typ="sync", policy="rungs", mode="min", max_t=2))
    cfgs.append(dict(typ="sync", policy="all", mode="max", max_t=2))
    for c in cfgs:
        p = dict(c, T=T, E=E, W=2, max_fail=1)
        name = "C14.a[%s,%s%s%s,%s]" % (c["typ"], c["policy"], ",myopic" if c.get("myopic") else "",
                                       ",no-ckpt" if c.get("ckpt") is False else "", c.get("mode", "min"))
        goals = ("failure", "end", "stop" if c["typ"] == "stopping" else "pause") + (("resume",) if c["typ"] in ("promotion", "sync") else ())
        if c["typ"] == "sync":
            p.update(T=4, E=8)
        obs.append(Ob(name, "props.c14:h_data", p, bounds=dict(T=T, E=E, W=2, max_t=4, levels=[1, 2], failures="<=1", metrics="reals [-100,100]"),
                      goals=goals, split=(("c1", (0, 1, 2, 3)), ("c2", (0, 1, 2, 3, 4))), budget_s=1500,
                      stubs=("fmt", "npshim"), may_be_incomplete=not quick))
    # scripts that END EARLY (complete after any report, also below the first rung level 2): pending entries must go
    for policy, myopic in (("rungs", False), ("all", False)):
        p = dict(typ="stopping", policy=policy, myopic=myopic, mode="min", grace=2, max_t=8, T=2, E=6, W=2, max_fail=0, allow_complete=True)
        obs.append(Ob("C14.c[stopping,%s,grace=2,early-completion]" % policy, "props.c14:h_data", p,
                      bounds=dict(T=2, E=6, W=2, max_t=8, levels=[2, 4], completion="after any report"), goals=("end", "complete"),
                      split=(("c1", (0, 1, 2, 3)), ("c2", (0, 1, 2, 3, 4))), budget_s=1500, stubs=("fmt", "npshim")))
    if not quick:
        for typ in ("stopping", "promotion"):
            p = dict(typ=typ, policy="all", B=2, T=3, E=8, W=2, max_fail=1)
            obs.append(Ob("C14.b[%s,all,B=2]" % typ, "props.c14:h_data", p, bounds=p, goals=("end",),
                          split=(("b0", (0, 1)), ("b1", (0, 1)), ("c1", (0, 1, 2, 3)), ("c2", (0, 1, 2, 3, 4))), budget_s=2400,
                          may_be_incomplete=True))
    return obs


def run(tier, seed, only=None):
    obs = obligations(tier)
    if only:
        obs = [o for o in obs if only in o.name]
    return run_property("C14", obs, tier, seed, assumptions=ASSUME,
                        explanation="after every event of every schedule: surrogate data set == reference data policy, pending entries only for running trials at unobserved levels")
