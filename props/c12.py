"""C12  Tuning terminates on the stopping criterion and leaves nothing running.

Whole-run BMC of the real Tuner.run (incl. its finally block) with the termination monitor of
harness/tunersim.py: the criterion is recomputed from the monitor's own trace at the end of every
iteration; no start/resume after it holds; loop ends at that iteration; nothing in progress in the
backend afterwards; counters equal the monitor's counts; exception injected into a scheduler call."""
from symx.runner import Ob, run_property
from props import c01

ASSUME = c01.ASSUME + [
    "stopping criteria covered: max_num_trials_started / completed / finished / evaluations with every threshold 0..T (or 0..3), and the failure limit; wall-clock / cost / metric-threshold criteria are outside (clock is not a solver variable here)",
    "'by exception' clause: a RuntimeError is raised from the k-th scheduler call (suggest or on_trial_result), k symbolic; after it only 'nothing left running', 'final results stored' and 'running counter is 0' are asserted (the per-state counters of the poll that was interrupted are not part of the claim)",
]


def obligations(tier):
    quick = tier == "quick"
    obs = []
    base = dict(W=2, T=2, R=1, K=1, J=0, max_fail=1, props=["C12"], P=10, Z=0)
    sp = (("crit_n", (0, 1, 2)), ("dec_3", (0, 1, 2)), ("dec_4", (0, 1, 2)))
    for crit in ("finished", "started", "completed", "evaluations"):
        p = dict(base, crit=crit)
        obs.append(Ob("C12.a[%s,W=2,T=2,R=1]" % crit, "props.c01:h_loop", p,
                      bounds=dict(W=2, T=2, R=1, K=1, failures="<=1", threshold="0..2", polls="<=10"),
                      goals=("end", "criterion-reached", "exhausted"), split=sp, budget_s=2400))
    # a trial keeps reporting after the search space is exhausted; the evaluation budget is reached only then
    p = dict(base, crit="evaluations", R=2, max_fail=0, decisions=["CONTINUE", "STOP"])
    obs.append(Ob("C12.a[evaluations,W=2,T=2,R=2,stop-only]", "props.c01:h_loop", p,
                  bounds=dict(W=2, T=2, R=2, K=1, threshold="0..2", decisions="CONTINUE/STOP", polls="<=10"),
                  goals=("end", "criterion-reached", "exhausted"), split=sp, budget_s=2400))
    p = dict(base, crit="finished", wait=True)
    obs.append(Ob("C12.b[wait_trial_completion,W=2,T=2,R=1]", "props.c01:h_loop", p, bounds=dict(W=2, T=2, R=1, K=1, wait=True),
                  goals=("end", "criterion-reached"), split=sp, budget_s=2400))
    p = dict(base, crit="finished", asynchronous=False, W=2)
    obs.append(Ob("C12.b[synchronous,W=2,T=2,R=1]", "props.c01:h_loop", p, bounds=dict(W=2, T=2, R=1, K=1, asynchronous_scheduling=False),
                  goals=("end", "criterion-reached"), split=sp, budget_s=2400))
    p = dict(base, crit="finished", crit_n=2, tuner_max_failures=0, max_fail=2)
    obs.append(Ob("C12.c[failure-limit,max_failures=0]", "props.c01:h_loop", p, bounds=dict(W=2, T=2, R=1, K=1, failures="<=2", max_failures=0),
                  goals=("end", "failure-limit"), split=(("dec_3", (0, 1, 2)), ("dec_4", (0, 1, 2))), budget_s=2400))
    p = dict(base, crit="finished", crit_n=2, inject_max=5, max_fail=0)
    obs.append(Ob("C12.d[exception-injected]", "props.c01:h_loop", p, bounds=dict(W=2, T=2, R=1, K=1, injected_at_call="1..5"),
                  goals=("end", "exception-injected"), split=(("inject_at", (0, 1, 2, 3, 4)),), budget_s=2400))
    p = dict(base, crit="finished", crit_n=3, T=3, backend_fault_max=3, max_fail=0, decisions=["CONTINUE", "STOP"])
    obs.append(Ob("C12.d[backend-fault-injected]", "props.c01:h_loop", p, bounds=dict(W=2, T=3, R=1, K=1, failing_schedule_call="1..3"),
                  goals=("end", "backend-fault-injected"), split=(("fault_at", (0, 1, 2)),), budget_s=2400))
    # a metric threshold criterion; reports may be NaN (diverged runs), in the same poll as a value that crosses the threshold
    p = dict(base, crit="min_metric", crit_n=0, R=1, max_fail=0, decisions=["CONTINUE", "STOP"])
    obs.append(Ob("C12.f[min_metric_value,W=2,T=2,R=1]", "props.c01:h_loop", p,
                  bounds=dict(W=2, T=2, R=1, K=1, criterion="min_metric_value={m: 0.05}", values="each report one of 0.5 / 0.04 / NaN (symbolic)", decisions="CONTINUE/STOP"),
                  goals=("end", "criterion-reached", "exhausted"), split=(("v_0_0_1", (0, 1, 2)), ("v_1_0_1", (0, 1, 2)), ("dec_3", (0, 1))), budget_s=2400))
    if not quick:
        for crit in ("finished", "started"):
            p = dict(base, crit=crit, R=2, W=2, T=2)
            obs.append(Ob("C12.e[%s,W=2,T=2,R=2]" % crit, "props.c01:h_loop", p, bounds=dict(W=2, T=2, R=2, K=1, threshold="0..2"),
                          goals=("end", "criterion-reached"), split=sp + (("k_p2_t0", (0, 1)),), budget_s=3000, may_be_incomplete=True))
        p = dict(base, crit="finished", T=3, W=2)
        obs.append(Ob("C12.e[finished,W=2,T=3,R=1]", "props.c01:h_loop", p, bounds=dict(W=2, T=3, R=1, K=1, threshold="0..3"),
                      goals=("end", "criterion-reached"), split=(("crit_n", (0, 1, 2, 3)), ("dec_3", (0, 1, 2)), ("dec_4", (0, 1, 2))), budget_s=3000, may_be_incomplete=True))
    return obs


def run(tier, seed, only=None):
    obs = obligations(tier)
    if only:
        obs = [o for o in obs if only in o.name]
    return run_property("C12", obs, tier, seed, assumptions=ASSUME,
                        explanation="termination point, no start after the criterion, nothing left running, counters; whole-run BMC of the real Tuner.run")
