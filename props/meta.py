"""per-property manifest text (kept free of heavy imports)"""
NA = {
    "C08": "GP posterior/likelihood are computed by autograd.numpy + scipy/LAPACK in IEEE doubles: symbolic execution stops at that FFI boundary; the exact-arithmetic surrogate encoding in z3 NRA answers `unknown` for n=2 as soon as the incremental update's sqrt is present (DESIGN.md section 5); no other technique is substituted",
    "C09": "needs derivatives of the C08 quantities and of Phi/phi-based acquisition heads: calculus over LAPACK/autograd code is outside what an SMT solver decides (DESIGN.md section 5)",
}

COMMON_NOTE = ("trusted base: CPython 3.12, crosshair-tool 0.0.110 tracer and symbolic number classes, z3 5.1 "
               "(linear real/int arithmetic), the harness-side reference model and stubs listed in the evidence; "
               "metric values are exact reals (z3 Real), not IEEE doubles")

META = {}


def add(pid, text, technique, design_ref, note=COMMON_NOTE, category="model_checking"):
    META[pid] = dict(text=text, technique=technique, design_ref=design_ref, note=note, category=category)


add("C03",
    "bounded model checking by path-exhaustive symbolic execution of the real stopping-type HyperbandScheduler: every metric "
    "valuation (symbolic reals), every report order of <=2 concurrent trials and every bracket assignment for T<=4 trials / <=8 events "
    "is decided by z3 against a quantile-rule reference; counterexamples are replayed concretely before being reported",
    "symbolic execution of the real Python code (CrossHair engine as library, z3), exhaustive path enumeration within bounds, reference-model oracle",
    "DESIGN.md 4 C03")

add("C13",
    "bounded model checking of failure containment: failures injected at every point (before the first report, between reports, after a resume) of every "
    "schedule of <=3 trials / <=2 failures on the real HyperbandScheduler (stopping, promotion) with random and GP multi-fidelity searchers; the solver enumerates "
    "all metric-dependent decisions; state diff of pending evaluations / rung entries restricted to the failed trial",
    "symbolic execution of the real scheduler code (CrossHair engine + z3), exhaustive schedules x fault placement within bounds, state-diff oracle",
    "DESIGN.md 4 C13")
add("C14",
    "bounded model checking of the surrogate data set after every event: observed (trial, level) set and values vs the data-policy reference, pending entries only for running "
    "trials at unobserved levels; all metric valuations, report orders, pause/resume/failure placements for <=3 trials, 3 data policies, myopic on/off, checkpointing on/off",
    "symbolic execution of the real scheduler + searcher bookkeeping code (CrossHair engine + z3), invariant checked after every event on every path",
    "DESIGN.md 4 C14")
add("C19",
    "bounded model checking: Pareto filter and non-dominated sort vs brute-force dominance over a symbolic N x D matrix (N=3, D<=3; ties reachable), MOASHA decisions vs the rank rule "
    "with 4 entries at a rung (quick: 3 concrete earlier entries from an order-type table + symbolic newcomer; thorough: all symbolic)",
    "symbolic execution of the real numpy-based code through a symbolic-matrix carrier (every element comparison is a z3 fork), brute-force dominance oracle",
    "DESIGN.md 4 C19")

LOOP_NOTE = ("trusted base: CPython 3.12, crosshair-tool 0.0.110 tracer, z3 5.1; harness/tunersim.py (scripted in-memory backend implementing only the "
             "abstract hooks of TrialBackend, nondeterministic scheduler NDS, online monitors); the real Tuner.run / TrialBackend / TuningStatus code is "
             "executed unmodified; bounds W,T,R,K,J,P as listed per obligation in the evidence")
add("C01",
    "whole-run bounded model checking of the real Tuner.run(): every schedule of worker reports / completions / failures / batch sizes and every scheduler answer "
    "(nondeterministic scheduler) for W<=2 workers, T<=2 trials, R<=2 reports per run is enumerated by the solver; life-cycle automaton, id sequence, worker budget and "
    "notification order are checked online",
    "symbolic execution of the real tuning loop (CrossHair engine + z3) against a nondeterministic scheduler and scripted backend; exhaustive schedule enumeration within bounds",
    "DESIGN.md 4 C01", note=LOOP_NOTE)
add("C02",
    "inductive step of the generic fetch_status_results from an arbitrary consistent backend state (any history length, T=2, <=2-3 reports, all statuses, all timestamp interleavings) "
    "plus whole-run BMC of the batch-cut logic with late reports; delivery monitor: gap-free in-order prefix, exactly once, nothing written after the decision",
    "symbolic execution of the real backend/tuner code (CrossHair engine + z3): one-step induction over an arbitrary pre-state + bounded whole-run exploration",
    "DESIGN.md 4 C02", note=LOOP_NOTE)
add("C12",
    "whole-run BMC of the real Tuner.run() incl. its finally block for every count-based stopping criterion x every threshold 0..T, failure limit, wait_trial_completion on/off, "
    "synchronous scheduling, and an exception injected at a symbolic scheduler call; termination iteration, no start after the criterion, nothing in progress afterwards, counters",
    "symbolic execution of the real tuning loop (CrossHair engine + z3); termination monitor recomputes the criterion from its own trace",
    "DESIGN.md 4 C12", note=LOOP_NOTE)
add("C17",
    "bounded model checking: (a) TuningStatus / MetricsStatistics / best-trial reporting with symbolic values (real, NaN, string), symbolic trial assignment, mode lists; "
    "(b) whole-run BMC of the real Tuner.run with StoreResultsCallback: rows == delivered results in order with id, configuration at delivery (changed on resume), decision, time stamp; "
    "best_config attains the optimum over everything handed to the loop. CSV round trip only as concrete supplement on replayed witnesses",
    "symbolic execution of the real status/callback/tuner code (CrossHair engine + z3), fold-based oracle over the same symbolic values",
    "DESIGN.md 4 C17", note=LOOP_NOTE)
add("C20",
    "whole-run BMC of the real Tuner.run with REAL PopulationBasedTraining / promotion Hyperband / synchronous Hyperband and a scripted backend tracking checkpoint existence; metric values symbolic "
    "(they decide who is cloned/promoted/stopped), order and batching of results inside a poll symbolic; resume / warm start only while the checkpoint exists, no deletion for running trials",
    "symbolic execution of the real tuning loop + real schedulers (CrossHair engine + z3), checkpoint-existence monitor in the scripted backend",
    "DESIGN.md 4 C20", note=LOOP_NOTE)
add("C04",
    "bounded model checking of the real promotion-type HyperbandScheduler (promotion, rush_promotion, cost_promotion, PASHA) against an eligibility reference: every metric/cost valuation and every "
    "interleaving of suggest calls and reports of <=2 concurrent trials for T<=3 trials / <=8 events, with and without checkpointing and max_resource_attr",
    "symbolic execution of the real scheduler code (CrossHair engine + z3), reference-model oracle over the same symbolic values",
    "DESIGN.md 4 C04")
add("C05",
    "bounded model checking of the real synchronous bracket manager / brackets / top-list and of the SynchronousHyperbandScheduler API: every return order of pending jobs of <=2-3 open brackets, "
    "every failure subset (<=3), every metric valuation for the rung systems listed in the evidence; oracle: rung filling, promotion only after rung completion, top-k membership, bracket cycling, never blocks",
    "symbolic execution of the real code (CrossHair engine + z3), reference-model oracle",
    "DESIGN.md 4 C05")
add("C11",
    "bounded model checking of non-interference: two equally seeded scheduler objects, interleaved call by call, with every global-RNG entry point replaced by a stub that returns fresh symbolic values; "
    "any dependence of a suggestion/decision on a global draw is a satisfiable disequality. Families: FIFO random/grid/BO(pre-fit)/regularised evolution, Hyperband stopping/promotion (2 brackets), "
    "synchronous Hyperband, DEHB, PBT (population 4), median rule; <=3-5 trials, <=8-10 events",
    "symbolic execution of the real scheduler code (CrossHair engine + z3) as non-interference twins with symbolic global-RNG streams",
    "DESIGN.md 4 C11")
add("C15",
    "bounded model checking of mirror twins: instance A (mode min, metrics v) and B (mode max, metrics -v) driven with one symbolic schedule and symbolic metrics; all suggestions and decisions must coincide. "
    "Families: Hyperband stopping/promotion/RUSH (1-2 brackets), synchronous Hyperband, DEHB, PBT, median rule, regularised evolution, TuningStatus best trial; <=3-4 trials, <=8 events",
    "symbolic execution of the real scheduler code (CrossHair engine + z3), paired execution in one path",
    "DESIGN.md 4 C15")
add("C16",
    "bounded model checking of snapshot twins: (a) dill round trip of the whole scheduler at a symbolic event index, original and restored object continue with the same symbolic events (Hyperband stopping/promotion, "
    "synchronous Hyperband, DEHB, PBT, median rule, FIFO grid/BO pre-fit); (b) searcher get_state -> pickle -> clone_from_state for random and grid searchers with two seeds, snapshot index and result/failure events symbolic; "
    "suggestions/decisions equal, no configuration repeated",
    "symbolic execution of the real scheduler/searcher code (CrossHair engine + z3), twin continuation; pre-snapshot metrics pinned to one model value per path without branching",
    "DESIGN.md 4 C16")
add("C07",
    "bounded model checking of domains and encodings in exact real arithmetic: membership of decoded values for every cube point (incl. the admitted slack), encode in [0,1], round trips (continuous linear, integer, finite, ordinal-nn), "
    "samplers with the RNG output as a solver variable (randint, lograndint, qrandint, uniform, loguniform, quniform), dict round trip; domain parameters symbolic small ints or concrete tables. "
    "Log-scaled integer/finite value identities and IEEE round-off effects are outside (stated)",
    "symbolic execution of the real domain / range code through a numpy shim for scalar primitives (CrossHair engine + z3); log/exp as uninterpreted monotone inverse pairs with instantiated axioms",
    "DESIGN.md 4 C07")
add("C06",
    "bounded model checking: (a) imputation / de-duplication of partial initial points with symbolic integer bounds and symbolic given values vs a reference list (mid-point rule, order, all keys, membership); "
    "(b) FIFO schedulers with random / grid / BO(pre-fit) searchers on a finite space of 6 configurations: symbolic structure of points_to_evaluate, symbolic complete/fail/pending events; suggestions typed, in-domain, constants unchanged, "
    "initial points first and in order, no repeats, 'nothing left' only after all 6, grid exactly once. One real seed per obligation (the no-repeat clause is not claimed for every seed)",
    "symbolic execution of the real searcher / scheduler code (CrossHair engine + z3), reference-list oracle",
    "DESIGN.md 4 C06")
add("C18",
    "framing theorem decided by cvc5 in the theory of strings for lines of unbounded length: the regex literal and tag are extracted from report.py on every run, the leftmost-greedy match of a protocol line captures exactly the payload "
    "(also when the payload contains the tag and braces); both protocol assumptions are shown necessary by satisfiable twins replayed through the real retrieve(). Reporter side: all 13 value kinds x 3 key prefixes x 2 reports "
    "explored with the clock as a solver variable; reserved keys / unserialisable kinds rejected, accepted reports parse back unchanged, counter and time stamps monotone",
    "direct SMT encoding (cvc5 QF_SLIA, unbounded strings) generated from the regex in the source + symbolic execution of the reporter (CrossHair engine + z3)",
    "DESIGN.md 4 C18", note="trusted base: cvc5 1.0.3 string solver; hand-written model of re.findall semantics for this regex shape, differential-tested against re on every model; CPython json; crosshair-tool 0.0.110 + z3 5.1 for the reporter side")
add("C10",
    "bounded model checking of the real SimulatorBackend / event heap / time keeper / blackbox simulator backend with a symbolic benchmark table (metric and non-monotone elapsed-time columns), symbolic simulator delays and "
    "symbolic outside time: delivered values == table entries, consecutive levels from 1 or from the pause level + 1, time stamp == start + rebased & repaired elapsed time + delays (exact arithmetic), simulated clock monotone, sleeps charged; "
    "1 trial x 3 fidelities with pause/resume (checkpointing on/off), 2 trials x 2 fidelities with a stop",
    "symbolic execution of the real simulator code (CrossHair engine + z3), independent time-stamp oracle",
    "DESIGN.md 4 C10")
