"""C16  A saved and restored scheduler or searcher continues exactly like the original.

(a) whole scheduler: dill round trip (what Tuner.save does) at a symbolic event index; original and
    restored object continue with the same symbolic events; all suggestions/decisions equal;
(b) searcher get_state() -> pickle -> clone_from_state(): two identically driven originals, one is
    cloned at a symbolic index; the clone's suggestions must equal the untouched original's and the
    union of suggestions must not repeat a configuration."""
import pickle

import dill
import z3

from crosshair.core import NoTracing, deep_realize
from crosshair.statespace import context_statespace

from symx.runner import Ob, run_property
from symx import stubs
from harness.twin import Twin, make_scheduler, norm_config
from harness.common import make
from props.c15 import SHIMS


def pin_all(sym):
    """give every symbolic input created so far its model value WITHOUT branching (pickling cannot
    carry a solver term): one representative valuation per decision sequence up to the snapshot"""
    if not sym.symbolic:
        return
    with NoTracing():
        sp = context_statespace()
        if sp.solver.check() != z3.sat:
            from crosshair.util import IgnoreAttempt
            raise IgnoreAttempt("pin")
        m = sp.solver.model()
        for v in list(sym.vars.values()):
            sp.add(v.var == m.eval(v.var, model_completion=True))


def h_dill(sym, kind="promotion", W=2, T=3, E=8, max_t=4, brackets=1, max_fail=0, mode="min"):
    stubs.shim_modules(SHIMS.get(kind, []))
    kw = {}
    if brackets > 1:
        kw["brackets"] = brackets
    mf = kind not in ("fifo-random", "fifo-rea", "fifo-grid", "fifo-bo")
    A = make_scheduler(kind, mode=mode, max_t=max_t, seed=9, finite=(kind == "fifo-grid"), **kw)

    def snapshot(a, trials):
        pin_all(sym)
        with NoTracing():
            blob = dill.dumps(deep_realize((a, trials)))
            b, tb = dill.loads(blob)
        return b, tb
    tw = Twin(sym, A, None, W=W, T=T, E=E, max_t=max_t if mf else None, multi_fidelity=mf, max_fail=max_fail,
              allow_complete=not mf, code="C16", snapshot=snapshot)
    tw.run()
    cfgs = [tuple(sorted(c.items())) for c in tw.suggestions if c is not None]
    if kind in ("fifo-grid",):
        sym.check(len(set(cfgs)) == len(cfgs), "C16.config-suggested-twice", str(cfgs))


def h_searcher_state(sym, kind="random", N=6, seed=7, allow_duplicates=False, finite=True, small=False, restrict=False):
    """searcher level: get_state / clone_from_state"""
    from syne_tune.config_space import choice, randint, uniform
    from syne_tune.optimizer.schedulers.searchers.random_grid_searcher import RandomSearcher, GridSearcher
    cs = {"a": choice(["p", "q", "r"]), "n": randint(1, 3)} if finite else {"x": uniform(0, 1), "n": randint(1, 3)}
    if small:
        cs = {"a": choice(["p", "q"]), "n": randint(1, 2)}

    def mk():
        rc = {}
        if restrict:
            # random search restricted to a given list of configurations (5 of the 9); a fresh list per searcher, the searcher
            # removes entries from the list it is given
            rc = dict(restrict_configurations=[{"a": a, "n": n} for a, n in (("p", 1), ("q", 2), ("r", 3), ("p", 3), ("r", 1))])
        if kind == "random":
            return make(RandomSearcher, cs, metric="m", random_seed=seed, allow_duplicates=allow_duplicates, **rc)
        return make(GridSearcher, cs, metric="m", random_seed=seed, allow_duplicates=allow_duplicates)
    orig, shadow = mk(), mk()
    k = sym.choice("snapshot_at", N + 1)
    clone = None
    seen = []
    for i in range(N):
        if i == k:
            with NoTracing():
                state = pickle.loads(pickle.dumps(shadow.get_state()))
                clone = shadow.clone_from_state(state)
            sym.goal("snapshot")
        c_o = orig.get_config(trial_id=str(i))
        other = clone if clone is not None else shadow
        try:
            c_c = other.get_config(trial_id=str(i))
        except (AttributeError, TypeError, KeyError) as e:
            c_c = None
            sym.violation("C16.clone-raises", "get_config #%d on the %s raises %s: %s (snapshot at %d)" % (i, "clone" if clone is not None else "shadow", type(e).__name__, e, k))
        sym.check(c_o == c_c, "C16.clone-suggestion-differs", "get_config #%d: original %s, %s %s (snapshot at %d)" % (i, c_o, "clone" if clone is not None else "shadow", c_c, k))
        if c_o is not None and not allow_duplicates:
            sym.check(c_o not in seen, "C16.config-suggested-twice", "%s" % (c_o,))
            seen.append(c_o)
        # feed a result / a failure (symbolic choice) to both
        if c_o is not None:
            ev = sym.choice("ev%d" % i, 3)
            for s_ in (orig, other):
                s_.register_pending(str(i), c_o)        # what the scheduler does for every suggestion
                if ev == 0:
                    s_.on_trial_result(str(i), c_o, {"m": 1.0 * i}, update=True)
                elif ev == 1:
                    s_.evaluation_failed(str(i))
    sym.goal("end")


ASSUME = [
    "dill round trip of (scheduler, trials) as Tuner.save does; symbolic metric values seen before the snapshot are pinned to one model value per path without branching (all decision sequences up to the snapshot x one representative valuation x all continuations)",
    "searcher level: pickle round trip of get_state() then clone_from_state(); the original that is compared was never cloned (GP searchers invalidate the source of a clone)",
    "GP searchers after a model fit are outside (parameter vectors come out of L-BFGS)",
]


def obligations(tier):
    quick = tier == "quick"
    obs = []
    sp = (("snapshot_at", tuple(range(9))),)
    fam = [("stopping", {}), ("promotion", dict(brackets=2)), ("sync", {}), ("pbt", {}), ("fifo-grid", {}), ("dehb", {}), ("median", {}), ("fifo-bo", {})]
    if not quick:
        fam += [("promotion", {}), ("fifo-random", {}), ("fifo-rea", {})]
    for kind, extra in fam:
        E = {"median": 6, "fifo-bo": 6, "fifo-grid": 6}.get(kind, 7) + (0 if quick else 1)
        mt = 2 if kind in ("sync", "dehb") else 4
        p = dict(kind=kind, W=3 if kind == "median" else 2, T=3 if kind not in ("sync", "dehb") else 4, E=E, max_t=mt, max_fail=1 if kind in ("promotion",) else 0, **extra)
        obs.append(Ob("C16.a[dill,%s%s]" % (kind, ",B=2" if extra else ""), "props.c16:h_dill", p, bounds=dict(T=p["T"], E=E, W=p["W"], max_t=mt, snapshot_at="0..E"),
                      goals=("snapshot", "end", "snapshot-while-running") + (("snapshot-while-paused",) if kind in ("promotion", "sync") else ()),
                      split=(("snapshot_at", tuple(range(E + 1))),), budget_s=1800, may_be_incomplete=not quick))
    # mode max: state that carries the sign of the mode (sort keys, thresholds) must survive the round trip as well
    for kind in ("stopping", "promotion"):
        E = 7
        p = dict(kind=kind, W=2, T=3, E=E, max_t=4, max_fail=0, mode="max")
        obs.append(Ob("C16.a[dill,%s,max]" % kind, "props.c16:h_dill", p, bounds=dict(T=3, E=E, W=2, max_t=4, mode="max", snapshot_at="0..E"),
                      goals=("snapshot", "end", "snapshot-while-running"), split=(("snapshot_at", tuple(range(E + 1))),), budget_s=1800, may_be_incomplete=not quick))
    N = 5 if quick else 6
    # allow_duplicates=True: the exclusion list still carries the configurations of FAILED trials
    obs.append(Ob("C16.b[get_state,random,seed=7,allow_duplicates]", "props.c16:h_searcher_state", dict(kind="random", N=N + 1, seed=7, allow_duplicates=True, small=True),
                  bounds=dict(get_config_calls=N + 1, space="2 x 2 finite", allow_duplicates=True), goals=("snapshot", "end"),
                  split=(("snapshot_at", tuple(range(N + 2))),), budget_s=900))
    obs.append(Ob("C16.b[get_state,random,seed=7,restrict_configurations]", "props.c16:h_searcher_state", dict(kind="random", N=N, seed=7, restrict=True),
                  bounds=dict(get_config_calls=N, space="5 listed configurations of a 3 x 3 space", snapshot_at="0..%d" % N), goals=("snapshot", "end"),
                  split=(("snapshot_at", tuple(range(N + 1))),), budget_s=900))
    for kind in ("random", "grid"):
        for seed in (31415927, 7):
            obs.append(Ob("C16.b[get_state,%s,seed=%d]" % (kind, seed), "props.c16:h_searcher_state", dict(kind=kind, N=N, seed=seed),
                          bounds=dict(get_config_calls=N, space="3 x 3 finite", snapshot_at="0..%d" % N), goals=("snapshot", "end"),
                          split=(("snapshot_at", tuple(range(N + 1))),), budget_s=900))
    return obs


def run(tier, seed, only=None):
    obs = obligations(tier)
    if only:
        obs = [o for o in obs if only in o.name]
    return run_property("C16", obs, tier, seed, assumptions=ASSUME,
                        explanation="snapshot twins: restored scheduler / cloned searcher continues exactly like the never-interrupted original")
