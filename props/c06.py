"""C06  Suggestions are valid, typed configurations; initial points first; no repeats.

(a) impute_points_to_evaluate / _impute_default_config with symbolic integer bounds and symbolic
    partial / duplicate points (values symbolic);
(b) schedulers (FIFO random / grid / BO pre-fit) through
    suggest(): symbolic structure of points_to_evaluate (which keys are present, which of a small
    value set, duplicates), symbolic failures / results in between; validity, types, constants,
    order of initial points, no repeats, 'nothing left' only when a finite space is used up,
    grid enumerated exactly once;
(c) PBT's explore step with a symbolic parent value and a symbolic random stream."""
from symx.runner import Ob, run_property
from symx import stubs
from harness.common import make, new_trial


def h_impute(sym, P=3):
    import syne_tune.optimizer.schedulers.searchers.searcher as SR
    from syne_tune.config_space import randint, uniform, choice
    stubs.shim_modules(["syne_tune.optimizer.schedulers.searchers.searcher", "syne_tune.config_space"])
    lo = sym.int("lo", -4, 4)
    hi = sym.int("hi", -4, 4)
    sym.assume(lo <= hi)
    cs = {"a": randint(lo, hi), "b": uniform(0.5, 2.0), "c": choice(["x", "y"]), "k": 7}
    pts = []
    for i in range(P):
        p = {}
        if sym.bool("has_a%d" % i):
            v = sym.int("a%d" % i, -4, 4)
            sym.assume(lo <= v)
            sym.assume(v <= hi)
            p["a"] = v
        if sym.bool("has_c%d" % i):
            p["c"] = "y"
        pts.append(p)
    out = SR.impute_points_to_evaluate(pts, cs)
    sym.check(0 < len(out) <= P, "C06.impute-count", "%d points from %d" % (len(out), P))
    defaults_a = [cfg["a"] for cfg, p in zip(out, pts)]
    for cfg in out:
        sym.check(set(cfg.keys()) == {"a", "b", "c"}, "C06.impute-keys", str(sorted(cfg.keys())))
        sym.check(lo <= cfg["a"] <= hi and 0.5 <= cfg["b"] <= 2.0 and cfg["c"] in ("x", "y"), "C06.impute-not-member", "")
        sym.check(cfg["b"] == 1.25, "C06.impute-midpoint", "uniform(0.5, 2) imputed as %s, mid-point is 1.25" % (cfg["b"],))
    for i in range(len(out)):
        for j in range(i + 1, len(out)):
            sym.check(not (out[i]["a"] == out[j]["a"] and out[i]["c"] == out[j]["c"]), "C06.impute-duplicate", "points %d and %d are equal" % (i, j))
    # mid-point rule for the integer range (decided on an empty point), then the exact reference list
    d0 = SR.impute_points_to_evaluate([{}], cs)[0]["a"]
    sym.check(2 * d0 >= lo + hi - 1 and 2 * d0 <= lo + hi + 1, "C06.impute-midpoint", "randint(lo,hi) imputed far from the centre")
    ref = []
    for p in pts:
        c = (p.get("a", d0), p.get("c", "x"))
        if not any(c[0] == r[0] and c[1] == r[1] for r in ref):
            ref.append(c)
    sym.check(len(ref) == len(out), "C06.impute-count", "%d imputed configs, reference has %d" % (len(out), len(ref)))
    for r, o in zip(ref, out):
        sym.check(o["a"] == r[0] and o["c"] == r[1], "C06.impute-order-or-value", "imputed list differs from the de-duplicated given list")
    if any("a" not in p for p in pts):
        sym.goal("defaulted")
    if len(out) < P:
        sym.goal("deduplicated")
    sym.goal("end")


VALS = {"a": [1, 2.0, 3], "c": ["x", "y"]}      # 2.0: an integer hyperparameter given as float (e.g. from JSON)


def _space():
    from syne_tune.config_space import randint, choice
    return {"a": randint(1, 3), "c": choice(["x", "y"]), "k": 7}


def _p2e(sym, P):
    pts = []
    for i in range(P):
        p = {}
        ka = sym.choice("pa%d" % i, len(VALS["a"]) + 1)
        if ka > 0:
            p["a"] = VALS["a"][ka - 1]
        kc = sym.choice("pc%d" % i, len(VALS["c"]) + 1)
        if kc > 0:
            p["c"] = VALS["c"][kc - 1]
        pts.append(p)
    return pts


def _ref_impute(pts):
    out = []
    for p in pts:
        c = {"a": int(p.get("a", 2)), "c": p.get("c", "x")}
        if c not in out:
            out.append(c)
    return out


def _check_config(sym, cfg, where):
    sym.check(cfg is not None and set(cfg.keys()) >= {"a", "c", "k"}, "C06.keys-missing", "%s: %s" % (where, cfg))
    sym.check(cfg["k"] == 7, "C06.constant-changed", str(cfg))
    sym.check(type(cfg["a"]) is int and 1 <= cfg["a"] <= 3, "C06.value-type-or-range", "a=%r" % (cfg["a"],))
    sym.check(type(cfg["c"]) is str and cfg["c"] in ("x", "y"), "C06.value-type-or-range", "c=%r" % (cfg["c"],))


RC = [{"a": 2, "c": "x"}, {"a": 1, "c": "y"}, {"a": 3, "c": "x"}, {"a": 3, "c": "y"}]     # restrict_configurations (4 of the 6)


def h_scheduler(sym, kind="fifo-random", P=2, N=7, seed=3, restrict=False):
    """finite space of 6 configurations; N suggest calls with symbolic results / failures in between"""
    from syne_tune.optimizer.schedulers.fifo import FIFOScheduler
    pts = _p2e(sym, P)
    ref = _ref_impute(pts)
    cs = _space()
    size = 6
    if restrict:
        # documented: only the listed configurations may be suggested; initial points that are not listed are dropped, the
        # others keep their order
        ref = [c for c in ref if c in RC]
        size = len(RC)
        sch = make(FIFOScheduler, cs, searcher="random", metric="m", mode="min", random_seed=seed, points_to_evaluate=pts,
                   search_options={"restrict_configurations": [dict(c) for c in RC]})
    elif kind == "fifo-random":
        sch = make(FIFOScheduler, cs, searcher="random", metric="m", mode="min", random_seed=seed, points_to_evaluate=pts)
    elif kind == "fifo-grid":
        sch = make(FIFOScheduler, cs, searcher="grid", metric="m", mode="min", random_seed=seed, points_to_evaluate=pts)
    elif kind == "fifo-bo":
        stubs.shim_modules(["syne_tune.optimizer.schedulers.searchers.model_based_searcher"])
        sch = make(FIFOScheduler, cs, searcher="bayesopt", metric="m", mode="min", random_seed=seed, points_to_evaluate=pts,
                   search_options={"num_init_random": 10, "debug_log": False})
    else:
        raise AssertionError(kind)
    seen = []
    trials = {}
    none_seen = False
    for i in range(N):
        s = sch.suggest(i)
        if s is None:
            none_seen = True
            sym.check(len(seen) == size, "C06.nothing-left-too-early", "suggest returned None after %d of %d configurations" % (len(seen), size))
            sym.goal("exhausted")
            break
        cfg = s.config
        _check_config(sym, cfg, "suggestion %d" % i)
        core = {"a": cfg["a"], "c": cfg["c"]}
        if restrict:
            sym.check(core in RC, "C06.not-in-restrict-configurations", "suggestion %d = %s is not among the listed configurations" % (i, core))
        if i < len(ref):
            sym.check(core == ref[i], "C06.initial-points-order", "suggestion %d is %s, initial point %d is %s" % (i, core, i, ref[i]))
            sym.goal("initial-point")
        sym.check(core not in seen, "C06.repeated-suggestion", "suggestion %d repeats %s (seen %s)" % (i, core, seen))
        seen.append(core)
        trials[i] = new_trial(i, cfg)
        sch.on_trial_add(trials[i])
        ev = sym.choice("ev%d" % i, 3) if i < 3 else 0
        if ev == 0:
            sch.on_trial_complete(trials[i], {"m": float(i)})
        elif ev == 1:
            sch.on_trial_error(trials[i])
            sym.goal("failure")
        # ev == 2: stays pending
    if kind == "fifo-grid" and len(seen) == 6:
        sym.goal("grid-complete")
    sym.goal("end")


def _pbt_domains(sym):
    from syne_tune.config_space import uniform, randint, choice, finrange, loguniform
    return {
        "uniform": (uniform(-1.0, 2.0), lambda: sym.real("v", -1.0, 2.0)),
        "randint": (randint(-3, 5), lambda: sym.int("v", -3, 5)),
        "randint-single": (randint(1, 1), lambda: 1),
        "choice": (choice(["p", "q", "r"]), lambda: ["p", "q", "r"][sym.choice("v", 3)]),
        "finrange": (finrange(0.25, 1.0, 4), lambda: [0.25, 0.5, 0.75, 1.0][sym.choice("v", 4)]),
        "finrange-int": (finrange(1, 9, 3, cast_int=True), lambda: [1, 5, 9][sym.choice("v", 3)]),
        "loguniform": (loguniform(0.5, 8.0), lambda: sym.real("v", 0.5, 8.0)),
    }


def h_pbt_explore(sym, domain="uniform"):
    """PopulationBasedTraining._explore with a symbolic parent value (a member of the domain) and a SYMBOLIC random
    stream (the resample / perturb choice, the multiplier, the resampled value): the perturbed configuration has
    all keys, the constant unchanged, and the value is of the domain's type and inside the domain.  One domain per
    obligation (the keys are perturbed independently, so the path counts would multiply otherwise)"""
    from harness.twin import make_scheduler
    from symx.stubs import SymRandomState
    stubs.shim_modules(["syne_tune.optimizer.schedulers.pbt", "syne_tune.config_space"])
    stubs.shim_copy(["syne_tune.optimizer.schedulers.pbt"])
    sch = make_scheduler("pbt", population_size=2)
    dom, mk = _pbt_domains(sym)[domain]
    cs = {"h": dom, "k": 7}
    parent = {"h": mk(), "k": 7}
    sch.config_space = cs
    sch._random_state = SymRandomState(sym, "pbt")
    new = sch._explore(dict(parent))
    sym.check(set(new.keys()) == set(cs.keys()), "C06.keys-missing", "explore: %s" % sorted(new.keys()))
    sym.check(new["k"] == 7, "C06.constant-changed", "explore")
    v = new["h"]
    if isinstance(v, (stubs.SymArr, list, tuple)):
        sym.violation("C06.value-type-or-range", "explore: the value is a sequence")
    vt = dom.value_type
    if vt is float:
        sym.check(isinstance(v, float), "C06.value-type-or-range", "explore: %s value has type %s" % (domain, type(v).__name__))
    elif vt is int:
        sym.check(isinstance(v, int) and not isinstance(v, bool), "C06.value-type-or-range", "explore: %s value has type %s" % (domain, type(v).__name__))
    if domain == "choice":
        sym.check(v in ("p", "q", "r"), "C06.value-type-or-range", "explore: %r not a category" % (v,))
    elif domain.startswith("finrange"):
        sym.check(any(v == u for u in list(dom.values)), "C06.value-type-or-range", "explore: value not among the values of the finite range")
    else:
        sym.check(dom.lower <= v <= dom.upper, "C06.value-type-or-range", "explore: value outside [%s, %s]" % (dom.lower, dom.upper))
    if not (v == parent["h"]):
        sym.goal("changed")
    sym.goal("end")


ASSUME = [
    "(a) integer bounds and given values symbolic ints in [-4,4]; mid-point rule checked as: uniform(0.5,2) -> 1.25, randint(lo,hi) -> within 1/2 of (lo+hi)/2",
    "(b) finite space randint(1,3) x choice(x,y) x constant (6 configurations); points_to_evaluate: 2 points, each key absent or one of the listed values (symbolic structure, concrete values: configurations end up in string-keyed exclusion lists, so symbolic VALUES inside configurations are not used there)",
    "searchers use their real seeded RandomState (one seed per obligation): 'every seed' is NOT covered for the no-repeat / exhaustion clauses (candidate F5 -- random search giving up after 100 failed draws on a large nearly exhausted space -- is outside these bounds)",
    "(c) PBT exploration: PopulationBasedTraining._explore on one domain at a time (uniform, randint, single-value randint, choice, finrange float / cast_int, loguniform) with a symbolic parent value and a symbolic random stream; custom explore functions and quantized domains are outside",
    "suggestions computed by a fitted GP, KDE/BORE/botorch searchers, HyperTune and DEHB's sampler are outside",
]


def obligations(tier):
    quick = tier == "quick"
    obs = [Ob("C06.a[impute,P=3]", "props.c06:h_impute", dict(P=3), bounds=dict(points=3, bounds="ints in [-4,4]"),
              goals=("defaulted", "deduplicated", "end"), split=(("lo", tuple(range(-4, 5))),), budget_s=1200)]
    for kind in ("fifo-random", "fifo-grid", "fifo-bo"):
        for seed in ((3,) if quick else (3, 11)):
            obs.append(Ob("C06.b[%s,seed=%d]" % (kind, seed), "props.c06:h_scheduler", dict(kind=kind, P=2, N=7, seed=seed),
                          bounds=dict(space="6 configurations", points_to_evaluate=2, suggest_calls=7, events="complete/fail/pending after each start"),
                          goals=("initial-point", "failure", "end") + (("exhausted",) if kind != "fifo-bo" else ()) + (("grid-complete",) if kind == "fifo-grid" else ()),
                          split=(("pa0", (0, 1, 2, 3)), ("pc0", (0, 1, 2))), budget_s=1500))
    obs.append(Ob("C06.b[fifo-random,restrict_configurations,seed=3]", "props.c06:h_scheduler", dict(kind="fifo-random", P=2, N=6, seed=3, restrict=True),
                  bounds=dict(space="6 configurations, 4 listed in restrict_configurations", points_to_evaluate=2, suggest_calls=6), goals=("initial-point", "failure", "exhausted", "end"),
                  split=(("pa0", (0, 1, 2, 3)), ("pc0", (0, 1, 2))), budget_s=1500))
    for dom in ("uniform", "randint", "randint-single", "choice", "finrange", "finrange-int", "loguniform"):
        obs.append(Ob("C06.c[pbt-explore,%s]" % dom, "props.c06:h_pbt_explore", dict(domain=dom),
                      bounds=dict(parent="symbolic member of the domain", random_stream="symbolic (every draw)", domain=dom),
                      goals=("end",) + (("changed",) if dom != "randint-single" else ()), budget_s=600,
                      stubs=["SymRandomState for PBT's generator", "npshim (clip / log / exp abstraction)", "copy.deepcopy in pbt.py copies containers and shares symbolic leaves"]))
    return obs


def run(tier, seed, only=None):
    obs = obligations(tier)
    if only:
        obs = [o for o in obs if only in o.name]
    return run_property("C06", obs, tier, seed, assumptions=ASSUME,
                        explanation="imputation of partial / duplicate initial points with symbolic bounds; schedulers' suggestions valid, typed, initial points first, no repeats, exhaustion only when the finite space is used up")
