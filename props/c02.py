"""C02  Every reported result is delivered exactly once, in order, never after stop.

(a) one inductive step of the generic TrialBackend.fetch_status_results from an arbitrary
    consistent backend state (any history length);
(b) pause -> late reports -> resume -> poll sequence on the generic backend (cumulative log);
(c) whole-run BMC of Tuner.run (batch cut in _update_running_trials, K=2, late reports J=1)
    with the delivery monitor of harness/tunersim.py."""
from pathlib import Path

from symx.runner import Ob, run_property
from props import c01

from syne_tune.backend.trial_backend import TrialBackend
from syne_tune.backend.trial_status import Status, TrialResult
from syne_tune.constants import ST_WORKER_TIMESTAMP

STATUSES = [Status.in_progress, Status.completed, Status.failed, Status.paused, Status.stopped, Status.stopping]
HIDDEN = (Status.paused, Status.stopped, Status.stopping)


class UnitBackend(TrialBackend):
    """generic backend with a scripted worker side (cumulative per-trial metric lists)"""

    def __init__(self):
        super().__init__()
        self.w_metrics = {}
        self.w_status = {}

    def _schedule(self, trial_id, config):
        self.w_status[trial_id] = Status.in_progress
        self.w_metrics.setdefault(trial_id, [])

    def _all_trial_results(self, trial_ids):
        out = []
        for t in trial_ids:
            tr = self._trial_dict[t]
            out.append(TrialResult(trial_id=t, config=tr.config, creation_time=tr.creation_time,
                                   status=self.w_status[t], metrics=list(self.w_metrics[t])))
        return out

    def _pause_trial(self, trial_id, result):
        self.w_status[trial_id] = Status.paused

    def _stop_trial(self, trial_id, result):
        self.w_status[trial_id] = Status.stopped

    def _resume_trial(self, trial_id):
        pass

    def copy_checkpoint(self, a, b):
        pass

    def delete_checkpoint(self, t):
        pass

    def busy_trial_ids(self):
        return [(t, s) for t, s in self.w_status.items() if s == Status.in_progress]

    def stdout(self, t):
        return []

    def stderr(self, t):
        return []

    def entrypoint_path(self):
        return Path("s.py")


def h_fetch_step(sym, T=2, M=3, poll_all=False):
    """arbitrary pre-state (seen[t] <= n[t] <= M, any status) + arbitrary new output, one poll"""
    be = UnitBackend()
    clock = 0
    pre_seen, n_old, n_new, status = {}, {}, {}, {}
    for t in range(T):
        be.start_trial({"x": t})
    # timestamps: symbolic ints, non-decreasing per trial, all distinct (workers share one clock)
    stamps = {}
    allst = []
    for t in range(T):
        n_old[t] = sym.choice("n_old_%d" % t, M + 1)
        pre_seen[t] = sym.choice("seen_%d" % t, n_old[t] + 1)
        n_new[t] = n_old[t] + sym.choice("new_%d" % t, M - n_old[t] + 1)
        status[t] = STATUSES[sym.choice("status_%d" % t, len(STATUSES))]
        for i in range(n_new[t]):
            ts = sym.int("ts_%d_%d" % (t, i), 0, 50)
            if i > 0:
                sym.assume(stamps[(t, i - 1)] < ts)
            for other in allst:
                sym.assume(other != ts)
            stamps[(t, i)] = ts
            allst.append(ts)
        be.w_metrics[t] = [{"m": float(i), "seq": i, ST_WORKER_TIMESTAMP: stamps[(t, i)]} for i in range(n_new[t])]
        be.w_status[t] = status[t]
        be._last_metric_seen_index[t] = pre_seen[t]
    ids = list(range(T)) if poll_all else [t for t in range(T) if sym.bool("poll_%d" % t)]
    sd, results = be.fetch_status_results(ids)
    sym.check(sorted(sd.keys()) == ids, "C02.status-keys", "%s vs %s" % (sorted(sd.keys()), ids))
    for t in range(T):
        got = [r["seq"] for (tt, r) in results if tt == t]
        if t not in ids:
            sym.check(got == [], "C02.unpolled-trial-delivered", str(got))
            sym.check(be._last_metric_seen_index[t] == pre_seen[t], "C02.unpolled-trial-advanced")
            continue
        sym.check(sd[t][1] == status[t], "C02.status-mismatch")
        if status[t] in HIDDEN:
            sym.check(got == [], "C02.delivered-after-stop", "trial %d status %s delivered %s" % (t, status[t], got))
            sym.goal("hidden")
        else:
            exp = list(range(pre_seen[t], n_new[t]))
            sym.check(got == exp, "C02.gap-or-duplicate", "trial %d: seen=%d total=%d delivered seqs %s" % (t, pre_seen[t], n_new[t], got))
            sym.check(be._last_metric_seen_index[t] == n_new[t], "C02.seen-index", "")
            if len(exp) >= 2:
                sym.goal("batch")
    order = [r[ST_WORKER_TIMESTAMP] for (_, r) in results]
    for a, b in zip(order, order[1:]):
        sym.check(a <= b, "C02.not-sorted-by-worker-time", "")
    if len(order) >= 2 and len({tt for tt, _ in results}) == 2:
        sym.goal("interleaved")
    sym.goal("end")


def h_pause_resume(sym, M=3, J=2, use_stop=False):
    """poll -> decision pause -> worker writes j late reports before it is killed -> resume ->
    new run reports -> poll: only the new run's reports may be delivered"""
    be = UnitBackend()
    be.start_trial({"x": 0})
    clock = [0]

    def emit(run, seq, late):
        clock[0] += 1
        be.w_metrics[0].append({"m": 1.0, "run": run, "seq": seq, "late": late, ST_WORKER_TIMESTAMP: clock[0]})
    k1 = 1 + sym.choice("k1", M)
    for i in range(k1):
        emit(0, i, 0)
    _, res = be.fetch_status_results([0])
    sym.check([r["seq"] for _, r in res] == list(range(k1)), "C02.gap-or-duplicate", "first poll")
    # the loop hands results one by one; the scheduler pauses on result number c (batch cut)
    be.pause_trial(0, result=res[-1][1])
    j = sym.choice("late", J + 1)
    for i in range(j):
        emit(0, k1 + i, 1)
    if j:
        sym.goal("late-report")
    if sym.bool("poll_while_paused"):
        _, res = be.fetch_status_results([0])
        sym.check(res == [], "C02.delivered-after-stop", "poll while paused delivered %s" % res)
    be.resume_trial(0)
    k2 = sym.choice("k2", M + 1)
    for i in range(k2):
        emit(1, i, 0)
    _, res = be.fetch_status_results([0])
    late = [r for _, r in res if r["late"]]
    sym.check(not late, "C02.late-report-delivered", "after resume the poll delivers %d report(s) written by the previous run after the pause decision" % len(late))
    sym.check([(r["run"], r["seq"]) for _, r in res] == [(1, i) for i in range(k2)], "C02.gap-or-duplicate", "after resume: %s" % [(r["run"], r["seq"]) for _, r in res])
    sym.goal("end")


ASSUME = c01.ASSUME + [
    "generic backend contract as implemented by LocalBackend: _all_trial_results returns the cumulative list of everything the trial has written since its creation (std.out is opened in append mode across resumes)",
    "a worker may write up to J more reports between the poll on which the scheduler decides and the kill of its process",
    "torn last log line is outside (C18 framing assumption)",
]


def obligations(tier):
    quick = tier == "quick"
    obs = []
    obs.append(Ob("C02.a[fetch-step,T=2,M=%d]" % (2 if quick else 3), "props.c02:h_fetch_step", dict(T=2, M=2 if quick else 3, poll_all=quick),
                  bounds=dict(T=2, M=2 if quick else 3, statuses=6, timestamps="ints 0..50, distinct, increasing per trial"),
                  goals=("hidden", "batch", "interleaved", "end"), split=(("status_0", tuple(range(6))), ("status_1", tuple(range(6)))),
                  budget_s=1500, note="inductive step: pre-state arbitrary, so histories of any length are covered for T trials"))
    obs.append(Ob("C02.b[pause-late-resume]", "props.c02:h_pause_resume", dict(M=2, J=2),
                  bounds=dict(reports_per_run="<=2", late="<=2"), goals=("late-report", "end"), budget_s=600))
    cells = [(1, 2, 2, 2)] if quick else [(2, 2, 2, 2), (1, 2, 3, 2), (2, 2, 3, 3)]
    for (W, T, R, K) in cells:
        p = dict(W=W, T=T, R=R, K=K, J=1, max_fail=0 if quick else 1, props=["C02"], crit="finished", crit_n=T, P=10, Z=0,
                 decisions=["CONTINUE", "PAUSE", "STOP"])
        obs.append(Ob("C02.c[loop,W=%d,T=%d,R=%d,K=%d,J=1]" % (W, T, R, K), "props.c01:h_loop", p,
                      bounds=dict(W=W, T=T, R=R, K=K, J=1, polls="<=10", pauses_per_trial="<=1"),
                      goals=("end", "complete", "resume", "late-report"),
                      split=(("k_p2_t0", (0, 1, 2)), ("end_p2_t0", (0, 1)), ("dec_3", (0, 1, 2)), ("dec_4", (0, 1, 2))),
                      budget_s=2400, may_be_incomplete=not quick))
    # two concurrent trials with batches of two, stop decisions only (no pause/resume cycles): a decision on the
    # first result of one trial's batch must not disturb the other trial's delivery
    p = dict(W=2, T=2, R=2, K=2, J=0, max_fail=0, props=["C02"], crit="finished", crit_n=2, P=8, Z=0, decisions=["CONTINUE", "STOP"])
    obs.append(Ob("C02.d[loop,W=2,T=2,R=2,K=2,stop-only]", "props.c01:h_loop", p,
                  bounds=dict(W=2, T=2, R=2, K=2, decisions="CONTINUE/STOP", polls="<=8"), goals=("end", "complete"),
                  split=(("k_p2_t0", (0, 1, 2)), ("k_p2_t1", (0, 1, 2)), ("dec_3", (0, 1))), budget_s=2400))
    # the simulator backend inside the real loop: per run the delivered levels are consecutive, start at 1 or right after the
    # pause level, nothing of an earlier run is delivered after a resume (C01.b harness)
    for ob in c01.sim_obligations(tier):
        ob.name = ob.name.replace("C01.b", "C02.e")
        obs.append(ob)
    # the simulator's event heap with a symbolic order of the events of different trials, one trial stopped in between
    from props import c10
    obs.append(c10.heap_obligation("C02", "C02.f"))
    return obs


def run(tier, seed, only=None):
    obs = obligations(tier)
    if only:
        obs = [o for o in obs if only in o.name]
    return run_property("C02", obs, tier, seed, assumptions=ASSUME,
                        explanation="delivery monitor: per run the delivered reports are a gap-free, duplicate-free, in-order prefix; nothing written after the decision is delivered")
