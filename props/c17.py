"""C17  The results log and the reported best configuration reflect what happened.

(a) TuningStatus.update / MetricsStatistics.add / print_best_metric_found / metric_name_mode with
    symbolic values (real, NaN, string), symbolic trial assignment, several metrics with a mode list;
(b) whole-run BMC: rows of StoreResultsCallback == results delivered to the scheduler, in order,
    with trial id, configuration at delivery time (changes on resume), decision, tuner time stamp;
    Tuner.best_config attains the optimum over everything the backend handed to the loop."""
import math

from symx.runner import Ob, run_property
from harness.tunersim import Monitor, NDS, ScriptBackend, LoopCallback, make_tuner, RID
from props import c01

from syne_tune.constants import ST_TUNER_TIME, ST_TRIAL_ID, ST_DECISION, ST_STATUS


def h_stats(sym, N=3, T=2, modes=("min", "max"), query=0):
    from syne_tune.tuning_status import TuningStatus, print_best_metric_found
    from syne_tune.util import metric_name_mode
    from syne_tune.backend.trial_status import Trial, Status
    import syne_tune.tuning_status as TS
    TS.TuningStatus.__str__ = lambda self: ""
    TS.print = lambda *a, **k: None
    names = ["m%d" % j for j in range(len(modes))]
    ts = TuningStatus(metric_names=names)
    handed = []       # (tid, {name: (kind, value)})
    for i in range(N):
        tid = sym.choice("t%d" % i, T)
        res = {}
        rec = {}
        for j, nm in enumerate(names):
            kind = sym.choice("kind%d_%d" % (i, j), 3)      # 0 number, 1 NaN, 2 string
            if kind == 0:
                v = sym.real("v%d_%d" % (i, j), -10, 10)
            elif kind == 1:
                v = float("nan")
            else:
                v = "text"
            res[nm] = v
            rec[nm] = (kind, v)
        tr = Trial(tid, {"x": tid}, None)
        ts.update({tid: (tr, Status.in_progress)}, [(tid, res)])
        handed.append((tid, rec))
    st = ts.overall_metric_statistics
    sym.check(st.count == N, "C17.count", "%s vs %s" % (st.count, N))
    for j, nm in enumerate(names):
        first_kind = handed[0][1][nm][0]
        # numeric statistics are tracked only for metrics whose first value was numeric (documented)
        nums = [(t, v) for (t, r) in handed for (k, v) in [r[nm]] if k == 0]
        tracked = first_kind != 2
        if tracked and nums:
            all_numeric_or_nan = all(r[nm][0] != 2 for _, r in handed)
            if all_numeric_or_nan:
                lo, hi = st.min_metrics[nm], st.max_metrics[nm]
                for (_, v) in nums:
                    sym.check(lo <= v <= hi, "C17.min-max-bound", "metric %s" % nm)
                sym.check(any(lo == v for _, v in nums), "C17.min-not-attained", nm)
                sym.check(any(hi == v for _, v in nums), "C17.max-not-attained", nm)
                if all(r[nm][0] == 0 for _, r in handed):
                    tot = 0
                    for _, v in nums:
                        tot = tot + v
                    sym.check(st.sum_metrics[nm] == tot, "C17.sum", nm)
                    sym.goal("all-numeric")
                else:
                    sym.goal("with-nan")
        # per-trial statistics
        for t in range(T):
            mine = [r[nm] for (tt, r) in handed if tt == t]
            if mine and mine[0][0] != 2 and all(k != 2 for k, _ in mine):
                vals = [v for k, v in mine if k == 0]
                pst = ts.trial_metric_statistics[t]
                sym.check(pst.count == len(mine), "C17.trial-count", "")
                if vals:
                    sym.check(all(pst.min_metrics[nm] <= v <= pst.max_metrics[nm] for v in vals), "C17.trial-min-max", "")
                    sym.check(any(pst.min_metrics[nm] == v for v in vals) and any(pst.max_metrics[nm] == v for v in vals), "C17.trial-min-max-attained", "")
    # best trial for the queried metric (index or name)
    q = query if isinstance(query, int) else names.index(query)
    nm, md = metric_name_mode(names, list(modes), query)
    sym.check(nm == names[q] and md == modes[q], "C17.metric-name-mode", "%s %s" % (nm, md))
    if all(r[nm][0] == 0 for _, r in handed):
        bt, bv = print_best_metric_found(ts, [nm], md)
        vals = [(t, r[nm][1]) for t, r in handed]
        for (_, v) in vals:
            sym.check((bv <= v) if md == "min" else (bv >= v), "C17.best-not-optimal", "mode %s" % md)
        sym.check(any(t == bt and v == bv for t, v in vals), "C17.best-trial-mismatch", "trial %s does not hold the best value" % bt)
        sym.goal("best")
    sym.goal("end")


def h_rows(sym, W=2, T=2, R=2, K=2, max_fail=0, P=10):
    from syne_tune import StoppingCriterion
    from syne_tune.results_callback import StoreResultsCallback
    mon = Monitor(sym, W, ("C02",))
    be = ScriptBackend(sym, mon, R=R, K=K, J=0, max_fail=max_fail, Z=0, P=P)
    sch = NDS(sym, mon, T)
    sch.new_config_on_resume = True
    cb = LoopCallback(be, mon)

    class Store(StoreResultsCallback):
        pass
    store = Store()
    tuner = make_tuner(sym, sch, be, [cb, store], W, StoppingCriterion(max_num_trials_finished=T))
    tuner.run()
    rows = store.results
    sym.check(len(rows) == len(mon.deliveries), "C17.row-count", "%d rows, %d results delivered to the scheduler" % (len(rows), len(mon.deliveries)))
    for row, (tid, run, seq, dec, cfg, rid) in zip(rows, mon.deliveries):
        sym.check(row[RID] == rid, "C17.row-order", "row %s vs delivery %s" % (row[RID], rid))
        sym.check(row[ST_TRIAL_ID] == tid, "C17.row-trial-id", "")
        sym.check(row[ST_DECISION] == dec, "C17.row-decision", "%s vs %s" % (row[ST_DECISION], dec))
        sym.check(ST_TUNER_TIME in row, "C17.row-time-stamp", "")
        sym.check({k[len("config_"):]: v for k, v in row.items() if k.startswith("config_")} == cfg, "C17.row-config",
                  "row has %s, trial config at delivery was %s" % ({k: v for k, v in row.items() if k.startswith("config_")}, cfg))
        src = [m for m in be.log[tid] if m[RID] == rid][0]
        sym.check(row["m"] == src["m"] and row["r"] == src["r"], "C17.row-values", "")
    times = [row[ST_TUNER_TIME] for row in rows]
    sym.check(all(a <= b for a, b in zip(times, times[1:])), "C17.row-time-order", "")
    # best configuration over everything handed to the loop
    if cb.fetched_list:
        bt, bcfg = tuner.best_config()
        per_trial = {}
        for t, r in cb.fetched_list:
            per_trial[t] = min(per_trial.get(t, math.inf), r["m"])
        sym.check(per_trial[bt] == min(per_trial.values()), "C17.best-config-not-optimal", "best trial %s, per-trial minima %s" % (bt, per_trial))
        sym.check(bcfg == mon.cfg[bt], "C17.best-config-wrong-config", "%s vs %s" % (bcfg, mon.cfg[bt]))
        sym.goal("best")
        if len(cb.fetched_list) > len(mon.deliveries):
            sym.goal("handed-but-not-delivered")
    if not sym.symbolic and rows:
        # concrete supplement (replay of witnesses only): CSV round trip through pandas
        import pandas as pd
        import io
        df = store.dataframe()
        buf = io.StringIO()
        df.to_csv(buf, index=False)
        back = pd.read_csv(io.StringIO(buf.getvalue()))
        sym.check(list(back.columns) == list(df.columns) and len(back) == len(df), "C17.csv-shape", "")
        for c in ("m", "r", ST_TRIAL_ID):
            sym.check(all(abs(float(a) - float(b)) <= 1e-9 * max(1.0, abs(float(a))) for a, b in zip(df[c], back[c])), "C17.csv-values", c)
        sym.goal("csv-roundtrip")
    sym.goal("end")


ASSUME = [
    "exact real arithmetic for metric values in (a); NaN is a concrete float('nan'); non-numeric = the string 'text'",
    "documented statistics policy: a metric whose first value is non-numeric is not tracked; NaN is ignored by min/max (it never enters as the first argument of min/max) and propagates into the sum; the oracle follows that policy",
    "(b): rows compared with the monitor's delivery trace (harness/tunersim.py); metric values concrete (10*trial+level)",
    "CSV/pandas round trip is executed only on the concrete replays of the witnesses (concrete supplement, not solver coverage); ExperimentResult.best_config (pandas) is outside",
] + c01.ASSUME[:3]


def obligations(tier):
    quick = tier == "quick"
    obs = []
    for modes, q in ((("min",), 0), (("max", "min"), 0), (("min", "max"), "m1")):
        N = 3 if len(modes) == 1 else 2
        obs.append(Ob("C17.a[stats,N=%d,modes=%s,query=%s]" % (N, "/".join(modes), q), "props.c17:h_stats",
                      dict(N=N, T=2, modes=list(modes), query=q), bounds=dict(results=N, trials=2, metrics=len(modes), kinds="real/NaN/string"),
                      goals=("all-numeric", "with-nan", "best", "end"),
                      split=(("t0", (0, 1)), ("kind0_0", (0, 1, 2)), ("kind1_0", (0, 1, 2))), budget_s=1800))
    if not quick:
        obs.append(Ob("C17.a[stats,N=4,modes=min]", "props.c17:h_stats", dict(N=4, T=2, modes=["min"], query=0), bounds=dict(results=4, trials=2),
                      goals=("best", "end"), split=(("t0", (0, 1)), ("t1", (0, 1)), ("kind0_0", (0, 1, 2)), ("kind1_0", (0, 1, 2))), budget_s=2400, may_be_incomplete=True))
    cells = [(1, 1, 3, 2), (2, 2, 1, 1)] if quick else [(2, 2, 2, 2), (1, 2, 3, 2), (1, 2, 2, 2)]
    for (W, T, R, K) in cells:
        obs.append(Ob("C17.b[rows,W=%d,T=%d,R=%d,K=%d]" % (W, T, R, K), "props.c17:h_rows", dict(W=W, T=T, R=R, K=K),
                      bounds=dict(W=W, T=T, R=R, K=K, polls="<=10"),
                      goals=("end", "best", "config-changed-on-resume") + (("handed-but-not-delivered",) if K > 1 else ()),
                      split=(("k_p2_t0", (0, 1, 2)[:K + 1]), ("dec_3", (0, 1, 2)), ("dec_4", (0, 1, 2))), budget_s=2400, may_be_incomplete=not quick))
    return obs


def run(tier, seed, only=None):
    obs = obligations(tier)
    if only:
        obs = [o for o in obs if only in o.name]
    return run_property("C17", obs, tier, seed, assumptions=ASSUME,
                        explanation="rows == delivered results in order with id/config/decision/time stamp; running statistics == folds over the values handed to the loop; best trial attains the optimum per mode")
