"""C10  Simulated experiments replay the benchmark table faithfully in values and time.

Real code: SimulatorBackend (start / _schedule / _process_events_until_now / fetch_status_results /
pause / resume / stop), SimulatorState event heap, SimulatedTimeKeeper, _BlackboxSimulatorBackend
(UserBlackboxBackend) with a harness Blackbox whose table entries are symbolic reals (metric column
and elapsed-time column with arbitrary, also negative, increments), symbolic simulator delays,
symbolic time spent between calls."""
import os

from symx.runner import Ob, run_property
from crosshair.util import IgnoreAttempt


def _install_clock(sym, symbolic_clock, controlled=False):
    import datetime as _dt
    import syne_tune.backend.simulator_backend.time_keeper as TK
    import syne_tune.backend.simulator_backend.simulator_backend as SB

    class _FDT:
        @staticmethod
        def now():
            return _dt.datetime(2020, 1, 1)

    class _FTD:
        def __init__(self, seconds=0):
            pass

        def __radd__(self, o):
            return o

    class FakeTime:
        """stub clock: real time spent outside the backend between two calls is a solver variable"""

        def __init__(self):
            self.now = 1000.0
            self.n = 0

        def time(self):
            if controlled:
                return self.now         # real time passes only where the harness says so (h_outside_time)
            self.n += 1
            self.now = self.now + (sym.real("dt%d" % self.n, 0, 5) if symbolic_clock else 0.25)
            return self.now
    TK.datetime = _FDT
    TK.timedelta = _FTD
    SB.timedelta = _FTD
    ft = FakeTime()
    TK.time = ft
    return ft


def _blackbox(sym, F, ncfg=1, concrete_from=None):
    from syne_tune.blackbox_repository.blackbox import Blackbox
    from syne_tune.config_space import choice

    class SymBB(Blackbox):
        def __init__(self):
            super().__init__(configuration_space={"c": choice(list(range(ncfg)))},
                             fidelity_space={"epoch": choice(list(range(1, F + 1)))}, objectives_names=["loss", "et"])
            self.tab = {}
            for c in range(ncfg):
                t = 0
                rows = []
                for f in range(F):
                    if concrete_from is not None and c >= concrete_from:
                        t = t + 1.0 + 0.5 * f
                        rows.append([0.5 * c + f, t])
                        continue
                    t = t + sym.real("et_%d_%d" % (c, f), -2, 10)       # elapsed-time column, not necessarily monotone
                    rows.append([sym.real("loss_%d_%d" % (c, f), -5, 5), t])
                self.tab[c] = rows

        @property
        def fidelity_values(self):
            return list(range(1, F + 1))

        def fidelity_name(self):
            return "epoch"

        def _objective_function(self, configuration, fidelity=None, seed=None):
            return [list(x) for x in self.tab[configuration["c"]]]
    return SymBB()


def h_pause_resume(sym, F=3, ckpt=True, symbolic_clock=False, symbolic_sleep=False, pause_at=1):
    from syne_tune.blackbox_repository.simulated_tabular_backend import UserBlackboxBackend
    from syne_tune.backend.simulator_backend.simulator_backend import SimulatorConfig
    from syne_tune.constants import ST_TUNER_TIME
    _install_clock(sym, symbolic_clock)
    bb = _blackbox(sym, F)
    d_res = sym.real("d_res", 0, 1)
    d_start = sym.real("d_start", 0, 1)
    d_stop = sym.real("d_stop", 0, 1)
    d_cas = sym.real("d_cas", 0, 1)
    be = UserBlackboxBackend(blackbox=bb, elapsed_time_attr="et", max_resource_attr="epochs", support_checkpointing=ckpt,
                             simulator_config=SimulatorConfig(delay_on_trial_result=d_res, delay_complete_after_final_report=1.0,
                                                              delay_complete_after_stop=d_cas, delay_start=d_start, delay_stop=d_stop))
    be.set_path(results_root=os.environ["SYNETUNE_FOLDER"], tuner_name="c10")
    tk = be.time_keeper
    tk.start_of_time()
    last_time = [tk.time()]

    def mono(where):
        t = tk.time()
        sym.check(t >= last_time[0], "C10.time-runs-backwards", "simulated time decreased at %s" % where)
        last_time[0] = t
        return t

    def sleep(name):
        before = tk.time()
        dt = sym.real(name, 0, 30) if symbolic_sleep else 30.0
        tk.advance(dt)
        after = tk.time()
        sym.check(after - before >= dt, "C10.sleep-not-charged", "")
        return dt
    tr = be.start_trial({"c": 0, "epochs": pause_at})
    t_sched1 = mono("start")
    got = []
    for poll in range(3):
        sleep("sleep%d" % poll)
        st, res = be.fetch_status_results([0])
        mono("poll")
        got.extend(res)
        if got:
            break
    if not got:
        raise IgnoreAttempt()
    tab = bb.tab[0]
    sym.check([r["epoch"] for _, r in got] == list(range(1, pause_at + 1)), "C10.levels-not-consecutive", str([r["epoch"] for _, r in got]))
    prev = None
    for (_, r), lv in zip(got, range(1, pause_at + 1)):
        raw = tab[lv - 1][1]
        rep = (raw if raw > 0.01 else 0.01) if prev is None else (raw if raw > prev + 0.01 else prev + 0.01)
        prev = rep
        sym.check(r[ST_TUNER_TIME] == t_sched1 + d_start + rep + d_res, "C10.time-stamp", "run 1 level %d" % lv)
        sym.check(r["loss"] == tab[lv - 1][0], "C10.metric-value", "run 1 level %d" % lv)
    be.pause_trial(0, result=got[-1][1])
    t_before = mono("pause")
    be.resume_trial(0, new_config={"c": 0, "epochs": F})
    t_sched2 = mono("resume")
    got2 = []
    for poll in range(F + 2):
        sleep("sleepb%d" % poll)
        st, res = be.fetch_status_results([0])
        mono("poll")
        got2.extend(res)
    levels = [r["epoch"] for _, r in got2]
    exp_levels = list(range(pause_at + 1, F + 1)) if ckpt else list(range(1, F + 1))
    sym.check(levels == exp_levels[:len(levels)], "C10.levels-not-consecutive", "after resume: %s, expected prefix of %s" % (levels, exp_levels))
    if not symbolic_sleep:
        sym.check(levels == exp_levels, "C10.results-missing", "after resume and %d polls of 30 s: %s" % (F + 2, levels))
    prev = None
    for (_, r), lv in zip(got2, exp_levels):
        raw = tab[lv - 1][1] - (tab[pause_at - 1][1] if ckpt else 0)
        rep = (raw if raw > 0.01 else 0.01) if prev is None else (raw if raw > prev + 0.01 else prev + 0.01)
        prev = rep
        sym.check(r[ST_TUNER_TIME] == t_sched2 + d_start + rep + d_res, "C10.time-stamp", "run 2 level %d: time stamp differs from start + rebased/repaired elapsed time + delays" % lv)
        sym.check(r["loss"] == tab[lv - 1][0], "C10.metric-value", "run 2 level %d" % lv)
    if got2:
        sym.goal("resumed-results")
    sym.goal("end")


def h_outside_time(sym, F=2):
    """'time spent waiting is charged once': the real clock is under the harness' control and moves by a symbolic amount
    between ANY two backend calls of one tuning-loop round (fetch_status_results, busy_trial_ids, start_trial, pause_trial,
    resume_trial, stop_trial -- the order Tuner.run uses); after every call that may charge, the simulated clock equals
    the sum of all real time that passed so far + all sleeps + the documented stop / pause delays."""
    from syne_tune.blackbox_repository.simulated_tabular_backend import UserBlackboxBackend
    from syne_tune.backend.simulator_backend.simulator_backend import SimulatorConfig
    from syne_tune.constants import ST_TUNER_TIME
    ft = _install_clock(sym, False, controlled=True)
    bb = _blackbox(sym, F, ncfg=2, concrete_from=0)
    for c in (0, 1):
        bb.tab[c] = [[float(10 * c + f), 10.0 * (f + 1)] for f in range(F)]    # with sleeps of 12 s and gaps <= 1/4 s every event is due or not due regardless of the gaps
    d_stop, d_cas, d_start, d_res = 0.25, 0.5, 0.125, 0.0625
    be = UserBlackboxBackend(blackbox=bb, elapsed_time_attr="et", max_resource_attr="epochs", support_checkpointing=True,
                             simulator_config=SimulatorConfig(delay_on_trial_result=d_res, delay_complete_after_final_report=1.0,
                                                              delay_complete_after_stop=d_cas, delay_start=d_start, delay_stop=d_stop))
    be.set_path(results_root=os.environ["SYNETUNE_FOLDER"], tuner_name="c10c")
    tk = be.time_keeper
    tk.start_of_time()
    exp = [0]
    n = [0]

    def outside():
        n[0] += 1
        d = sym.real("real%d" % n[0], 0, 0.25)
        ft.now = ft.now + d
        exp[0] = exp[0] + d

    def charged(where):
        sym.check(tk.time() == exp[0], "C10.outside-time-not-charged-once",
                  "after %s the simulated clock differs from (real time spent outside the backend + sleeps + stop delays)" % where)

    def sleep(dt):
        tk.advance(dt)
        exp[0] = exp[0] + dt

    stamps = {}
    outside()
    be.busy_trial_ids()
    outside()
    be.start_trial({"c": 0, "epochs": F})
    charged("start_trial(0)")
    stamps[0] = exp[0]
    for rnd in range(2):
        sleep(12.0)
        outside()
        st, res = be.fetch_status_results([0] if rnd == 0 else [0, 1])
        charged("fetch_status_results")
        for tid, r in res:
            lv = r["epoch"]
            sym.check(r[ST_TUNER_TIME] == stamps[tid] + d_start + bb.tab[tid][lv - 1][1] + d_res, "C10.time-stamp",
                      "trial %d level %d: stamp differs from (clock at start_trial) + delay_start + elapsed + delay_on_trial_result" % (tid, lv))
            sym.goal("result")
        outside()           # e.g. scheduler.on_trial_result
        be.busy_trial_ids()
        outside()           # e.g. scheduler.suggest
        if rnd == 0:
            be.start_trial({"c": 1, "epochs": F})
            charged("start_trial(1)")
            stamps[1] = exp[0]
    outside()
    be.pause_trial(1, result=None)
    exp[0] = exp[0] + d_stop + 0.001 + d_cas + 0.001
    charged("pause_trial")
    outside()
    be.busy_trial_ids()
    outside()
    be.resume_trial(1, new_config={"c": 1, "epochs": F})
    charged("resume_trial")
    outside()
    be.stop_trial(0, result=None)
    exp[0] = exp[0] + d_stop + 0.001 + d_cas + 0.001
    charged("stop_trial")
    sym.goal("end")


def h_two_trials(sym, F=2, stop_first=True):
    """two trials on two workers: every delivered result carries its own trial's table row; stopping one trial does not
    disturb the other; results arrive ordered by simulated time stamp"""
    from syne_tune.blackbox_repository.simulated_tabular_backend import UserBlackboxBackend
    from syne_tune.backend.simulator_backend.simulator_backend import SimulatorConfig
    from syne_tune.constants import ST_TUNER_TIME
    _install_clock(sym, False)
    bb = _blackbox(sym, F, ncfg=2, concrete_from=1)
    be = UserBlackboxBackend(blackbox=bb, elapsed_time_attr="et", max_resource_attr="epochs", support_checkpointing=True,
                             simulator_config=SimulatorConfig(delay_on_trial_result=0.1, delay_complete_after_final_report=0.5,
                                                              delay_complete_after_stop=0.5, delay_start=0.2, delay_stop=0.3))
    be.set_path(results_root=os.environ["SYNETUNE_FOLDER"], tuner_name="c10b")
    tk = be.time_keeper
    tk.start_of_time()
    be.start_trial({"c": 0, "epochs": F})
    be.start_trial({"c": 1, "epochs": F})
    seen = {0: [], 1: []}
    stopped = False
    last_ts = {}
    for poll in range(F + 1):
        tk.advance((0.25, 12.0)[sym.choice("sleep%d" % poll, 2)])
        st, res = be.fetch_status_results([1] if stopped else [0, 1])     # the loop polls running trials only
        stopped_before_poll = stopped
        for tid, r in res:
            if tid == 0 and stopped and not stopped_before_poll:
                continue        # rest of the batch in which the stop was decided: cut by the tuning loop (C02)
            if last_ts.get(tid) is not None:
                sym.check(r[ST_TUNER_TIME] >= last_ts[tid], "C10.results-out-of-time-order", "trial %d" % tid)
            last_ts[tid] = r[ST_TUNER_TIME]
            sym.check(not (stopped_before_poll and tid == 0), "C10.result-after-stop", "trial 0 delivered level %s after it was stopped" % r["epoch"])
            seen[tid].append(r["epoch"])
            sym.check(r["loss"] == bb.tab[tid][r["epoch"] - 1][0], "C10.metric-value", "trial %d level %d" % (tid, r["epoch"]))
            if stop_first and tid == 0 and not stopped:
                be.stop_trial(0, result=r)
                stopped = True
                sym.goal("stopped")
    for tid in (0, 1):
        sym.check(seen[tid] == list(range(1, len(seen[tid]) + 1)), "C10.levels-not-consecutive", "trial %d: %s" % (tid, seen[tid]))
    if len(seen[1]) == F:
        sym.goal("other-trial-complete")
    sym.goal("end")


class _SeedDraws:
    """numpy as seen by simulated_tabular_backend.py: everything is numpy, except that random.randint -- the per-trial seed
    of the table -- is a solver variable"""

    def __init__(self, sym):
        import numpy
        self._np = numpy
        self._sym = sym
        self.draws = []
        self.random = self

    def randint(self, low, high=None, *a, **k):
        if high is None:
            low, high = 0, low
        v = low + self._sym.choice("seed_draw%d" % len(self.draws), high - low)
        self.draws.append(v)
        return v

    def __getattr__(self, name):
        return getattr(self._np, name)


def h_tabular_seed(sym, ckpt=True, S=3, F=3):
    """the real BlackboxTabular (concrete table: 2 configurations x S seeds x F levels, values encode configuration, seed and
    level), backend built with seed=None: every draw of a per-trial seed is a solver variable.  Two trials; trial 0 is paused
    at a symbolic level and resumed: every result of every run must carry the row of (configuration, the seed drawn for the
    trial's FIRST run, level)."""
    import numpy as np
    import pandas as pd
    from syne_tune.blackbox_repository.blackbox_tabular import BlackboxTabular
    import syne_tune.blackbox_repository.simulated_tabular_backend as STB
    from syne_tune.backend.simulator_backend.simulator_backend import SimulatorConfig
    from syne_tune.config_space import choice, randint
    from crosshair.core import NoTracing
    _install_clock(sym, False, controlled=True)
    with NoTracing():
        ev = np.zeros((2, S, F, 2))
        for c in range(2):
            for sd in range(S):
                for e in range(1, F + 1):
                    ev[c, sd, e - 1, 0] = 1000.0 * sd + 100.0 * c + e
                    ev[c, sd, e - 1, 1] = e * (10.0 + sd) + c
        bb = BlackboxTabular(hyperparameters=pd.DataFrame({"c": [0, 1], "d": [7, 7]}), configuration_space={"c": choice([0, 1]), "d": choice([7])},
                             fidelity_space={"epoch": randint(1, F)}, objectives_evaluations=ev, objectives_names=["loss", "et"])
    draws = _SeedDraws(sym)
    saved = STB.np
    STB.np = draws
    try:
        be = STB.UserBlackboxBackend(blackbox=bb, elapsed_time_attr="et", max_resource_attr="epochs", seed=None, support_checkpointing=ckpt,
                                     simulator_config=SimulatorConfig(delay_on_trial_result=0.125, delay_complete_after_final_report=0.125,
                                                                      delay_complete_after_stop=0.125, delay_start=0.125, delay_stop=0.125))
        be.set_path(results_root=os.environ["SYNETUNE_FOLDER"], tuner_name="c10e")
        # the pandas / numpy lookup itself runs untraced on concrete arguments (it is not the subject here)
        _lookup = be.config_objectives

        def lookup(config, seed):
            with NoTracing():
                return _lookup(dict(config), seed=seed)
        be.config_objectives = lookup
        tk = be.time_keeper
        tk.start_of_time()
        pause_at = 1 + sym.choice("pause_at", F - 1)
        be.start_trial({"c": 0, "d": 7, "epochs": pause_at})
        be.start_trial({"c": 1, "d": 7, "epochs": F})
        seed_of = {}
        seen = {0: [], 1: []}

        def poll(ids):
            tk.advance(200.0)
            st, res = be.fetch_status_results(ids)
            for tid, r in res:
                lv = int(r["epoch"])
                sd = int((r["loss"] - 100.0 * tid - lv) // 1000)        # the seed whose table row this value is
                sym.check(r["loss"] == 1000.0 * sd + 100.0 * tid + lv and 0 <= sd < S, "C10.metric-value", "trial %d level %d: %s is not a table value" % (tid, lv, r["loss"]))
                if tid not in seed_of:
                    seed_of[tid] = sd
                sym.check(sd == seed_of[tid], "C10.seed-changed", "trial %d level %d carries the row of seed %d, its earlier results those of seed %d" % (tid, lv, sd, seed_of[tid]))
                seen[tid].append(lv)
                last[tid] = r
        last = {}
        poll([0, 1])
        sym.check(seen[0] == list(range(1, pause_at + 1)), "C10.levels-not-consecutive", "trial 0 run 1: %s" % seen[0])
        be.pause_trial(0, result=last[0])
        be.resume_trial(0, new_config={"c": 0, "d": 7, "epochs": F})
        n1 = len(seen[0])
        poll([0, 1])
        exp2 = list(range(pause_at + 1, F + 1)) if ckpt else list(range(1, F + 1))
        sym.check(seen[0][n1:] == exp2, "C10.levels-not-consecutive", "trial 0 after the resume: %s, expected %s" % (seen[0][n1:], exp2))
        sym.check(seen[1] == list(range(1, F + 1)), "C10.levels-not-consecutive", "trial 1: %s" % seen[1])
        if len(draws.draws) >= 2 and draws.draws[0] == 0:
            sym.goal("first-seed-zero")
        sym.goal("resumed-results")
        sym.goal("end")
    finally:
        STB.np = saved


def h_three_trials(sym, F=3, prop="C10", sym_trials=(1, 2)):
    """three trials on three workers, two of them with SYMBOLIC elapsed-time columns (every interleaving of their events in
    the simulator's event heap); the third is stopped after its first result while events of all three are queued.  One
    poll after a long sleep must then deliver, for each remaining trial, all F levels exactly once and in order, each with
    its own table row, and the trial's time stamps must not decrease."""
    from syne_tune.blackbox_repository.simulated_tabular_backend import UserBlackboxBackend
    from syne_tune.backend.simulator_backend.simulator_backend import SimulatorConfig
    from syne_tune.constants import ST_TUNER_TIME
    _install_clock(sym, False, controlled=True)
    bb = _blackbox(sym, F, ncfg=3, concrete_from=0)
    for c in (1, 2):
        t = 0
        rows = []
        for f in range(F):
            t = t + (sym.real("et_%d_%d" % (c, f), 0.5, 6) if c in sym_trials else (4.0, 5.0, 3.0)[f % 3])
            rows.append([float(10 * c + f), t])
        bb.tab[c] = rows
    bb.tab[0] = [[float(f), 1.0 + f] for f in range(F)]
    # cut the tree into independent sub-trees along the relative order of the two symbolic trials' events
    for f in range(F):
        sym.split_on("s%d" % f, bb.tab[1][f][1] < bb.tab[2][f][1])
    sym.split_on("s%d" % F, bb.tab[1][0][1] < 2.0)
    sym.split_on("s%d" % (F + 1), bb.tab[2][0][1] < 2.0)
    be = UserBlackboxBackend(blackbox=bb, elapsed_time_attr="et", max_resource_attr="epochs", support_checkpointing=True,
                             simulator_config=SimulatorConfig(delay_on_trial_result=0.125, delay_complete_after_final_report=0.125,
                                                              delay_complete_after_stop=0.125, delay_start=0.125, delay_stop=0.125))
    be.set_path(results_root=os.environ["SYNETUNE_FOLDER"], tuner_name="c10d")
    tk = be.time_keeper
    tk.start_of_time()
    for c in range(3):
        be.start_trial({"c": c, "epochs": F})
    tk.advance(1.5)
    st, res = be.fetch_status_results([0, 1, 2])
    first = [(tid, r["epoch"]) for tid, r in res if tid == 0]
    sym.check(first == [(0, 1)], prop + ".levels-not-consecutive", "trial 0 after 1.5 s: %s" % first)
    seen = {1: [], 2: []}
    for tid, r in res:
        if tid != 0:
            seen[tid].append(r)
    be.stop_trial(0, result=res[0][1])
    sym.goal("stopped")
    tk.advance(100.0)
    st, res = be.fetch_status_results([1, 2])
    for tid, r in res:
        sym.check(tid in (1, 2), prop + ".result-after-stop", "trial %s delivered a result after it was stopped" % tid)
        seen[tid].append(r)
    for tid in (1, 2):
        lv = [r["epoch"] for r in seen[tid]]
        sym.check(lv == list(range(1, F + 1)), prop + (".levels-not-consecutive" if prop == "C10" else ".delivery-order"),
                  "trial %d ran to its end; levels delivered: %s" % (tid, lv))
        for a, b in zip(seen[tid], seen[tid][1:]):
            sym.check(b[ST_TUNER_TIME] >= a[ST_TUNER_TIME], prop + (".results-out-of-time-order" if prop == "C10" else ".delivery-order"), "trial %d" % tid)
        for r in seen[tid]:
            sym.check(r["loss"] == bb.tab[tid][r["epoch"] - 1][0], prop + (".metric-value" if prop == "C10" else ".result-altered"), "trial %d level %d" % (tid, r["epoch"]))
    sym.goal("end")


ASSUME = [
    "blackbox = harness subclass of Blackbox returning symbolic tables (metric in [-5,5], elapsed-time increments in [-2,10]); the pandas/numpy lookup of BlackboxTabular is outside",
    "stub clock: time.time as seen by time_keeper returns arbitrary non-decreasing instants (increment symbolic in [0,5] or fixed 0.25 s); datetime/timedelta replaced by constants",
    "documented monotonicity repair of the elapsed-time column: each value at least 0.01 above its predecessor (recomputed independently in the oracle)",
    "exact real arithmetic: time stamps compared with ==",
    "C10.e: the table lookup of the real BlackboxTabular (pandas / numpy) runs on concrete values; symbolic are the seed draws (np.random.randint as seen by simulated_tabular_backend.py) and the pause level",
    "C10.c: real clock fully under harness control (moves only between backend calls, by symbolic amounts in [0,1/4]); concrete table and delays",
]


def heap_obligation(prop, tag, sym_trials=(2,), **kw):
    return Ob("%s[three-trials,F=3,stop,symbolic-event-order,sym=%s]" % (tag, "+".join(map(str, sym_trials))), "props.c10:h_three_trials",
              dict(F=3, prop=prop, sym_trials=tuple(sym_trials)),
              bounds=dict(trials=3, fidelities=3, tables="elapsed-time increments of trial(s) %s symbolic in [0.5,6], the others concrete" % (sym_trials,),
                          schedule="start x3, poll at 1.5 s, stop trial 0, poll after 100 s"),
              goals=("stopped", "end"), split=tuple(("s%d" % i, (0, 1)) for i in range(5)), budget_s=1500, stubs=["time.time in time_keeper under harness control", "datetime/timedelta constants"], **kw)


def obligations(tier):
    quick = tier == "quick"
    obs = []
    for ckpt in (True, False):
        obs.append(Ob("C10.a[pause-resume,F=3,ckpt=%s]" % ckpt, "props.c10:h_pause_resume", dict(F=3, ckpt=ckpt, symbolic_clock=False, symbolic_sleep=False),
                      bounds=dict(trials=1, fidelities=3, table="symbolic", delays="symbolic in [0,1]", sleeps="30 s"), goals=("resumed-results", "end"), budget_s=1500))
    obs.append(Ob("C10.a[pause-resume,F=3,ckpt=True,pause_at=2,symbolic-clock]", "props.c10:h_pause_resume", dict(F=3, ckpt=True, symbolic_clock=True, pause_at=2),
                  bounds=dict(trials=1, fidelities=3, outside_time="symbolic in [0,5] per call"), goals=("resumed-results", "end"), budget_s=1500))
    obs.append(Ob("C10.c[outside-time,F=2]", "props.c10:h_outside_time", dict(F=2), bounds=dict(trials=2, fidelities=2, rounds=2, real_time="symbolic in [0,1/4] between any two backend calls (14 gaps)", sleeps="12 s", table="concrete, 10 s per level"),
                  goals=("result", "end"), budget_s=900, stubs=["time.time in time_keeper under harness control", "datetime/timedelta constants"]))
    for ck in (True, False):
        obs.append(Ob("C10.e[tabular,seed=None,ckpt=%s]" % ck, "props.c10:h_tabular_seed", dict(ckpt=ck, S=3, F=3),
                      bounds=dict(table="real BlackboxTabular, 2 configurations x 3 seeds x 3 levels, concrete", seed_draws="symbolic (every np.random.randint call)", pause_level="symbolic"),
                      goals=("first-seed-zero", "resumed-results", "end"), budget_s=900, stubs=["np.random.randint in simulated_tabular_backend.py", "time.time in time_keeper"]))
    obs.append(heap_obligation("C10", "C10.b"))
    if not quick:
        obs.append(heap_obligation("C10", "C10.b", sym_trials=(1, 2), may_be_incomplete=True))
    obs.append(Ob("C10.b[two-trials,F=2,stop]", "props.c10:h_two_trials", dict(F=2, stop_first=True), bounds=dict(trials=2, fidelities=2, polls=3, sleeps="each 0.25 or 12 s", table="trial 0 symbolic, trial 1 concrete"),
                  goals=("stopped", "other-trial-complete", "end"), split=(("sleep0", (0, 1)), ("sleep1", (0, 1)), ("sleep2", (0, 1))), budget_s=1800))
    if not quick:
        obs.append(Ob("C10.c[pause-resume,F=3,symbolic-sleeps]", "props.c10:h_pause_resume", dict(F=3, ckpt=True, symbolic_sleep=True),
                      bounds=dict(trials=1, fidelities=3, sleeps="symbolic in [0,30]"), goals=("end",), budget_s=3000, may_be_incomplete=True))
    return obs


def run(tier, seed, only=None):
    obs = obligations(tier)
    if only:
        obs = [o for o in obs if only in o.name]
    return run_property("C10", obs, tier, seed, assumptions=ASSUME,
                        explanation="simulator backend vs table: values, consecutive levels, time stamps incl. resume rebasing and monotonicity repair, monotone clock, sleeps charged")
