"""C19  Multi-objective ranking is Pareto-consistent and MOASHA follows it.

Real code: pareto_efficient, nondominated_sort (compute_epsilon_net replaced by an arbitrary
permutation chosen by the solver: the layer property must not depend on the order inside a
layer), NonDominatedPriority / FixedObjectivePriority / LinearScalarizationPriority,
MOASHA.on_trial_result / _metric_dict, _Bracket.on_result.
The objective matrix is a SymMat of symbolic reals: every element comparison is a solver fork,
all mask / index logic is real numpy."""
import numpy as np

from symx.runner import Ob, run_property
from symx import stubs
from symx.stubs import SymMat, SymArr, NumpyShim, is_sym
from harness.common import make, new_trial


def _dominates(a, b):
    le = all(x <= y for x, y in zip(a, b))
    lt = any(x < y for x, y in zip(a, b))
    return le and lt


def _layers(rows):
    """brute-force Pareto layers (list of lists of indices)"""
    left = list(range(len(rows)))
    layers = []
    while left:
        front = [i for i in left if not any(_dominates(rows[k], rows[i]) for k in left if k != i)]
        layers.append(front)
        left = [i for i in left if i not in front]
    return layers


def _matrix(sym, N, D, prefix="x"):
    return [[sym.real("%s%d_%d" % (prefix, i, j), -5, 5) for j in range(D)] for i in range(N)]


def h_pareto(sym, N=3, D=2):
    import syne_tune.optimizer.schedulers.multiobjective.non_dominated_priority as ND
    rows = _matrix(sym, N, D)
    # concrete replay runs on a real numpy array (no carrier)
    mask = ND.pareto_efficient(SymMat(rows) if sym.symbolic else np.array(rows, dtype=float))
    sym.check(len(mask) == N, "C19.pareto-mask-length")
    nd = 0
    for i in range(N):
        dominated = any(_dominates(rows[k], rows[i]) for k in range(N) if k != i)
        sym.check(bool(mask[i]) == (not dominated), "C19.pareto-mask",
                  "point %d: mask=%s but dominated=%s" % (i, bool(mask[i]), dominated))
        nd += 0 if dominated else 1
    if nd < N:
        sym.goal("some-dominated")
    if nd == N:
        sym.goal("all-efficient")
    sym.goal("end")


class _PermEps:
    """stand-in for compute_epsilon_net: ranks within the front = a solver-chosen rotation/reversal"""

    def __init__(self, sym, replay=None):
        self.sym = sym
        self.n = 0
        self.chosen = []
        self.replay = replay

    def __call__(self, X, dim=None):
        n = X.shape[0]
        self.n += 1
        base = list(range(n))
        if n >= 2:
            if self.replay is not None:
                k = self.replay[len(self.chosen)]
            else:
                k = self.sym.choice("perm%d" % self.n, min(n, 3))
            self.chosen.append(k)
            base = base[k:] + base[:k]
            if k == 2:
                base = base[::-1]
        return np.array(base)


def h_ndsort(sym, N=3, D=2, with_max_items=False):
    import syne_tune.optimizer.schedulers.multiobjective.non_dominated_priority as ND
    rows = _matrix(sym, N, D)
    saved = ND.compute_epsilon_net
    ND.compute_epsilon_net = _PermEps(sym)
    try:
        max_items = None
        if with_max_items:
            max_items = sym.int("max_items", 1, N + 1)
            for k in range(1, N + 2):
                if max_items == k:
                    max_items = k
                    break
        dim = sym.choice("dim", D + 1)
        dim = None if dim == D else dim
        mk = (lambda: SymMat(rows)) if sym.symbolic else (lambda: np.array(rows, dtype=float))
        order = ND.nondominated_sort(mk(), dim=dim, max_items=max_items)
        ND.compute_epsilon_net = _PermEps(sym, replay=ND.compute_epsilon_net.chosen)
        nested = ND.nondominated_sort(mk(), dim=dim, max_items=max_items, flatten=False)
    finally:
        ND.compute_epsilon_net = saved
    order = [int(i) for i in order]
    layers = _layers(rows)
    layer_of = {i: li for li, l in enumerate(layers) for i in l}
    expect_len = N if max_items is None else min(N, max_items)
    sym.check(len(order) == expect_len, "C19.sort-length", "got %d indices, expected %d" % (len(order), expect_len))
    sym.check(len(set(order)) == len(order) and all(0 <= i < N for i in order), "C19.sort-not-permutation", str(order))
    for a in range(len(order)):
        for b in range(a + 1, len(order)):
            sym.check(layer_of[order[a]] <= layer_of[order[b]], "C19.sort-layer-order",
                      "index %d (layer %d) ranked before %d (layer %d)" % (order[a], layer_of[order[a]], order[b], layer_of[order[b]]))
    # every point of an earlier layer is present before any point of a later layer is
    present = set(order)
    for i in range(N):
        if i not in present:
            for j in present:
                sym.check(layer_of[j] <= layer_of[i], "C19.sort-truncation", "index %d (layer %d) kept but %d (layer %d) dropped" % (j, layer_of[j], i, layer_of[i]))
    sym.check([i for l in nested for i in l] == order, "C19.sort-flatten", "%s vs %s" % (nested, order))
    for l in nested:
        sym.check(len({layer_of[int(i)] for i in l}) <= 1, "C19.sort-nested-layer", str(nested))
    if len(layers) >= 2:
        sym.goal("two-layers")
    if len(layers) >= 3:
        sym.goal("three-layers")
    sym.goal("end")


class _MoashaNp(NumpyShim):
    """np as seen by moasha.py: np.array of rows with symbolic entries -> SymMat; searchsorted on
    symbolic priorities evaluated by comparisons; np.random.choice -> harness choice"""

    def __init__(self, sym, nb):
        self._sym = sym
        self._nb = nb
        self._k = 0
        self.random = self

    def choice(self, n, p=None):
        self._k += 1
        self.last_choice = self._sym.choice("bracket%d" % self._k, n)
        return self.last_choice

    def array(self, x, *a, **k):
        if isinstance(x, list) and x and isinstance(x[0], list) and any(is_sym(e) for r in x for e in r):
            return SymMat(x)
        return NumpyShim.array(self, x, *a, **k)

    def searchsorted(self, a, v, side="left", **k):
        if not (isinstance(v, SymArr) or is_sym(v) or any(is_sym(e) for e in a)):
            return np.searchsorted(a, v, side=side, **k)

        def count(vi):
            return sum(1 for x in a if (x < vi if side == "left" else x <= vi))
        if isinstance(v, (SymArr, list, tuple, np.ndarray)):
            return np.array([count(vi) for vi in v])
        return count(v)         # scalar needle (np.searchsorted returns a scalar then)


def h_moasha(sym, T=4, E=6, W=4, priority="nondominated", modes=("min", "min"), rf=2, max_t=4, grace=1, B=1,
             fixed_order=False, triple=None, complete_first=False):
    import syne_tune.optimizer.schedulers.multiobjective.moasha as MO
    import syne_tune.optimizer.schedulers.multiobjective.non_dominated_priority as ND
    from syne_tune.optimizer.schedulers.multiobjective.multiobjective_priority import (
        NonDominatedPriority, FixedObjectivePriority, LinearScalarizationPriority)
    from syne_tune.config_space import uniform
    saved = (MO.np, ND.compute_epsilon_net, getattr(MO, "print", None))
    MO.np = _MoashaNp(sym, B)
    MO.print = lambda *a, **k: None
    ND.compute_epsilon_net = _PermEps(sym)
    try:
        prio = dict(nondominated=NonDominatedPriority, fixed=lambda: FixedObjectivePriority(dim=1),
                    linear=LinearScalarizationPriority)[priority]()
        metrics = ["m%d" % j for j in range(len(modes))]
        sch = make(MO.MOASHA, {"x": uniform(0, 1)}, metrics=metrics, mode=list(modes), time_attr="r",
                   multiobjective_priority=prio, max_t=max_t, grace_period=grace, reduction_factor=rf, brackets=B)
        # reference milestones per bracket s: grace * rf**(k+s) <= max_t
        def milestones(s):
            out = []
            k = 0
            while grace * rf ** (k + s) <= max_t:
                out.append(grace * rf ** (k + s))
                k += 1
            return out
        trials, level, running, bracket = {}, {}, [], {}
        rung = {}     # (bracket, milestone) -> list of (tid, sign-mapped vector)
        pre = {}
        if fixed_order:
            # all first-level metric vectors up front; sub-trees cut along their order in coordinate 0
            for t in range(T):
                if triple is not None and t < len(triple):
                    # concrete earlier entries (given in the minimisation convention), symbolic newcomer(s)
                    pre[(t, 1)] = [float(x) if modes[j] == "min" else -float(x) for j, x in enumerate(triple[t])]
                else:
                    pre[(t, 1)] = [sym.real("m_%d_%d_%d" % (t, 1, j), -5, 5) for j in range(len(modes))]
            k = 0
            for a in range(T):
                for b2 in range(a + 1, T):
                    sym.split_on("s%d" % k, pre[(a, 1)][0] <= pre[(b2, 1)][0])
                    k += 1
        for step in range(T + E):
            can_start = len(trials) < T
            nopt = len(running)
            if nopt == 0 and not can_start:
                break
            if fixed_order:
                # the running trial with the lowest (level, id) reports next
                cc = len(running) if can_start else min(range(nopt), key=lambda i: (level[running[i]], running[i]))
            else:
                cc = len(running) if can_start else sym.choice("c%d" % step, nopt)
            if cc == len(running):
                tid = len(trials)
                s = sch.suggest(tid)
                trials[tid] = new_trial(tid, s.config)
                sch.on_trial_add(trials[tid])
                bracket[tid] = MO.np.last_choice
                level[tid] = 0
                running.append(tid)
                sym.event("start t%d bracket %s" % (tid, bracket[tid]))
                continue
            tid = running[cc]
            level[tid] += 1
            r = level[tid]
            vec = pre.get((tid, r)) or [sym.real("m_%d_%d_%d" % (tid, r, j), -5, 5) for j in range(len(modes))]
            res = {"r": r}
            for j, m in enumerate(metrics):
                res[m] = vec[j]
            mapped = [v if modes[j] == "min" else -v for j, v in enumerate(vec)]
            b = bracket[tid]
            if complete_first and tid == 0 and r == 1:
                # the script of trial 0 ends after one epoch and its only result reaches the scheduler through
                # on_trial_complete (no on_trial_result before): it is recorded at the rung like any other result
                sch.on_trial_complete(trials[tid], res)
                if r in milestones(b):
                    rung.setdefault((b, r), []).append((tid, mapped))
                running.remove(tid)
                sym.goal("completed-without-report")
                sym.event("t0 completes with its first result")
                continue
            d = sch.on_trial_result(trials[tid], res)
            expect = None
            if r >= max_t:
                expect = {"STOP"}
                sym.goal("stop-at-max")
            elif r in milestones(b):
                entries = rung.setdefault((b, r), [])
                entries.append((tid, mapped))
                n = len(entries)
                if n == 1:
                    expect = {"CONTINUE"}
                else:
                    rows = [e[1] for e in entries]
                    if priority == "nondominated":
                        layers = _layers(rows)
                        li = [k for k, l in enumerate(layers) if (n - 1) in l][0]
                        L = sum(len(l) for l in layers[:li])
                        S = len(layers[li])
                        lo_rank, hi_rank = L / n, (L + S - 1) / n
                    else:
                        if priority == "fixed":
                            pr = [row[1] for row in rows]
                        else:
                            pr = [sum(row) / len(row) for row in rows]
                        better = sum(1 for x in pr if x < pr[-1])
                        lo_rank = hi_rank = better / n
                    if hi_rank <= 1 / rf:
                        expect = {"CONTINUE"}
                    elif lo_rank > 1 / rf:
                        expect = {"STOP"}
                    else:
                        expect = {"CONTINUE", "STOP"}
                    if n >= 4:
                        sym.goal("four-at-rung")
                    if expect == {"STOP"}:
                        sym.goal("stop-at-rung")
                    if expect == {"CONTINUE"} and n >= 2:
                        sym.goal("continue-at-rung")
            else:
                expect = {"CONTINUE"}
            sym.event("t%d r=%d -> %s expect %s" % (tid, r, d, sorted(expect)))
            sym.check(d in expect, "C19.moasha-decision",
                      "trial %d at level %d (bracket %s, %d entries at rung): got %s, rank rule allows %s" % (
                          tid, r, b, len(rung.get((b, r), [])), d, sorted(expect)))
            if d != "CONTINUE":
                sch.on_trial_remove(trials[tid])
                running.remove(tid)
        sym.goal("end")
    finally:
        MO.np, ND.compute_epsilon_net = saved[0], saved[1]
        if saved[2] is None:
            del MO.print
        else:
            MO.print = saved[2]


ASSUME = [
    "exact real arithmetic; objective entries in [-5,5] (comparison-only code: order-isomorphic to any range)",
    "compute_epsilon_net (Euclidean norms, nonlinear) is replaced by a solver-chosen permutation of the front; the layer property and MOASHA's rule are checked for every such order. For the non-dominated priority the oracle is two-sided: rank of the new trial lies between (#points in strictly earlier layers)/n and (that + own layer size - 1)/n; decisions are constrained only when both ends agree",
    "SymMat carrier: element comparisons fork in the solver and return concrete numpy bool arrays; nothing else of numpy is modelled",
    "MOASHA: np.array(rows)->SymMat, np.searchsorted on symbolic priorities evaluated by comparisons, np.random.choice (bracket of a new trial) -> solver choice; print suppressed",
]


def obligations(tier):
    quick = tier == "quick"
    obs = []
    for (N, D) in ((3, 2), (3, 3)) + (() if quick else ((4, 2),)):
        obs.append(Ob("C19.a[pareto,N=%d,D=%d]" % (N, D), "props.c19:h_pareto", dict(N=N, D=D), bounds=dict(N=N, D=D),
                      goals=("some-dominated", "all-efficient", "end"), budget_s=2400, may_be_incomplete=(N == 4),
                      stubs=("SymMat",)))
    obs.append(Ob("C19.b[ndsort,N=3,D=2]", "props.c19:h_ndsort", dict(N=3, D=2), bounds=dict(N=3, D=2, dim="0,1,None"),
                  goals=("two-layers", "three-layers", "end"), split=(("dim", (0, 1, 2)),), budget_s=1200, stubs=("SymMat", "perm-eps")))
    obs.append(Ob("C19.b[ndsort,N=3,D=2,max_items]", "props.c19:h_ndsort", dict(N=3, D=2, with_max_items=True),
                  bounds=dict(N=3, D=2, max_items="1..4"), goals=("two-layers", "end"),
                  split=(("dim", (0, 1, 2)), ("max_items", (1, 2, 3, 4))), budget_s=1200, stubs=("SymMat", "perm-eps")))
    if not quick:
        obs.append(Ob("C19.b[ndsort,N=4,D=2]", "props.c19:h_ndsort", dict(N=4, D=2), bounds=dict(N=4, D=2),
                      goals=("two-layers", "end"), split=(("dim", (0, 1, 2)),), budget_s=2400, may_be_incomplete=True))
    # MOASHA: 4 trials reaching the first rung (the rank rule needs >= 4 entries to differ from simpler rules)
    triples = dict(chain=[[1, 1], [2, 2], [3, 3]], antichain=[[1, 3], [2, 2], [3, 1]], mixed=[[1, 2], [2, 1], [3, 3]],
                   ties=[[1, 1], [1, 1], [2, 0]])
    for prio, modes in (("nondominated", ("min", "min")), ("nondominated", ("max", "min")), ("fixed", ("min", "max")), ("linear", ("min", "min"))):
        if quick and prio == "nondominated":
            # fully symbolic 4-entry rung costs ~50 cpu-min (thorough tier); quick: three concrete earlier entries
            # from a table of order types, the newcomer symbolic
            for tn, tr in triples.items():
                obs.append(Ob("C19.c[moasha,%s,%s,%s+new]" % (prio, "/".join(modes), tn), "props.c19:h_moasha",
                              dict(priority=prio, modes=list(modes), T=4, E=4, W=4, rf=3, max_t=9, fixed_order=True, triple=tr),
                              bounds=dict(T=4, reports=4, rf=3, max_t=9, D=2, earlier_entries=tr, newcomer="symbolic in [-5,5]^2"),
                              goals=("four-at-rung", "stop-at-rung", "continue-at-rung", "end"), budget_s=900))
            continue
        obs.append(Ob("C19.c[moasha,%s,%s]" % (prio, "/".join(modes)), "props.c19:h_moasha",
                      dict(priority=prio, modes=list(modes), T=4, E=4, W=4, rf=3, max_t=9, fixed_order=True),
                      bounds=dict(T=4, W=4, reports=4, rf=3, max_t=9, D=2, order="t0,t1,t2,t3 each reporting level 1 once"),
                      goals=("four-at-rung", "stop-at-rung", "continue-at-rung", "end"),
                      split=tuple(("s%d" % k, (0, 1)) for k in range(6)), budget_s=2400, may_be_incomplete=not quick))
        if not quick and prio != "nondominated":
            # (any-order with the non-dominated priority: > 8*10^4 paths without exhausting in 4 cpu-hours -- dropped)
            obs.append(Ob("C19.d[moasha,%s,%s,any-order]" % (prio, "/".join(modes)), "props.c19:h_moasha",
                          dict(priority=prio, modes=list(modes), T=4, E=5, W=4, rf=3, max_t=9),
                          bounds=dict(T=4, W=4, reports=5, rf=3, max_t=9, D=2),
                          goals=("end",), split=(("c4", (0, 1, 2, 3)), ("c5", (0, 1, 2, 3))), budget_s=2400, may_be_incomplete=True))
    # a result that reaches the scheduler only through on_trial_complete; per-metric modes differ
    for modes in (("max", "min"), ("min", "max")):
        obs.append(Ob("C19.c[moasha,fixed,%s,first-result-by-completion]" % "/".join(modes), "props.c19:h_moasha",
                      dict(priority="fixed", modes=list(modes), T=3, E=3, W=3, rf=2, max_t=4, fixed_order=True, complete_first=True),
                      bounds=dict(T=3, W=3, reports=3, rf=2, max_t=4, D=2, order="t0 (completes), t1, t2 each reporting level 1 once"),
                      goals=("completed-without-report", "stop-at-rung", "continue-at-rung", "end"), split=(("s0", (0, 1)), ("s1", (0, 1)), ("s2", (0, 1))), budget_s=900))
    obs.append(Ob("C19.c[moasha,nondominated,rf=2,T=3]", "props.c19:h_moasha",
                  dict(priority="nondominated", modes=["min", "max"], T=3, E=4 if quick else 5, W=3, rf=2, max_t=4, fixed_order=True),
                  bounds=dict(T=3, W=3, reports=4 if quick else 5, rf=2, max_t=4, order="round robin"), goals=("end", "stop-at-rung", "continue-at-rung"),
                  split=(("s0", (0, 1)), ("s1", (0, 1)), ("s2", (0, 1))), budget_s=1800, may_be_incomplete=not quick))
    obs.append(Ob("C19.c[moasha,fixed,B=2,rf=3]", "props.c19:h_moasha",
                  dict(priority="fixed", modes=["min", "min"], T=3, E=5 if quick else 6, W=3, rf=3, max_t=9, B=2),
                  bounds=dict(T=3, W=3, reports=5 if quick else 6, rf=3, max_t=9, B=2), goals=("end", "stop-at-rung"),
                  split=(("c3", (0, 1, 2)), ("c4", (0, 1, 2))), budget_s=1800))
    return obs


def run(tier, seed, only=None):
    obs = obligations(tier)
    if only:
        obs = [o for o in obs if only in o.name]
    return run_property("C19", obs, tier, seed, assumptions=ASSUME,
                        explanation="Pareto filter / non-dominated sort vs brute-force dominance over the same symbolic entries; MOASHA decisions vs the rank rule")
