"""C11  Seeded runs are reproducible  (non-interference formulation).

Two scheduler objects built with equal arguments and random_seed are driven with the same
(partly symbolic) event sequence.  Every entry point of numpy's and Python's GLOBAL generators
is replaced by a stub returning a fresh symbolic value on every call, so the two twins see
independent arbitrary global streams: if any suggestion or decision depended on a global draw the
solver returns two streams that make the twins differ."""
import random as _pyrandom

import numpy as np

from symx.runner import Ob, run_property
from symx import stubs
from harness.twin import Twin, make_scheduler
from props.c15 import SHIMS

NP_NAMES = ["uniform", "rand", "random", "random_sample", "randint", "choice", "normal", "randn", "seed", "shuffle", "permutation"]
PY_NAMES = ["random", "uniform", "randint", "choice", "shuffle", "sample", "seed", "gauss"]


class GlobalStreams:
    """stub `globalrng`: each call yields a fresh symbolic value inside the documented range"""

    def __init__(self, sym):
        self.sym = sym
        self.tag = "a"
        self.n = 0
        self.calls = 0

    def _real(self, lo=0.0, hi=1.0):
        self.n += 1
        self.calls += 1
        return self.sym.real("g_%s_%d" % (self.tag, self.n), lo, hi)

    def _int(self, lo, hi):
        self.n += 1
        self.calls += 1
        v = self.sym.int("gi_%s_%d" % (self.tag, self.n), lo, hi)
        for k in range(lo, hi + 1):      # concretise by forking
            if v == k:
                return k
        return hi

    def uniform(self, low=0.0, high=1.0, size=None):
        if size is not None:
            from symx.stubs import SymArr
            return SymArr([self._real(low, high) for _ in range(size if isinstance(size, int) else size[0])])
        return self._real(low, high)

    def rand(self, *a):
        return self._real()

    random = random_sample = rand

    def normal(self, loc=0.0, scale=1.0, size=None):
        return self._real(-10, 10)

    randn = gauss = normal

    def randint(self, low, high=None, size=None, **k):
        if high is None:
            low, high = 0, low
        if size is not None:
            return np.array([self._int(low, high - 1) for _ in range(size if isinstance(size, int) else size[0])])
        return self._int(low, high - 1)

    def py_randint(self, a, b):
        return self._int(a, b)

    def choice(self, a, size=None, replace=True, p=None):
        n = a if isinstance(a, int) else len(a)

        def one():
            i = self._int(0, n - 1)
            return i if isinstance(a, int) else a[i]
        if size is None:
            return one()
        k = size if isinstance(size, int) else size[0]
        return np.array([one() for _ in range(k)], dtype=object if not isinstance(a, int) else int)

    def shuffle(self, x):
        self.calls += 1
        i = self._int(0, max(len(x) - 1, 0))
        x[:] = list(x[i:]) + list(x[:i])

    def permutation(self, x):
        n = x if isinstance(x, int) else len(x)
        i = self._int(0, max(n - 1, 0))
        base = list(range(n)) if isinstance(x, int) else list(x)
        return np.array(base[i:] + base[:i])

    def sample(self, population, k):
        i = self._int(0, max(len(population) - 1, 0))
        pop = list(population)
        return (pop[i:] + pop[:i])[:k]

    def seed(self, *a, **k):
        self.calls += 1


def h_noninterference(sym, kind="stopping", W=2, T=3, E=8, max_t=4, brackets=1, max_fail=0, population_size=None, concrete_metrics=False):
    stubs.shim_modules(SHIMS.get(kind, []))
    kw = {}
    if population_size:
        kw["population_size"] = population_size
    if kind == "pbt":
        kw["categorical"] = True
    if brackets > 1:
        kw["brackets"] = brackets
    mf = kind not in ("fifo-random", "fifo-rea", "fifo-grid", "fifo-bo")
    saved_np = {n: getattr(np.random, n) for n in NP_NAMES}
    saved_py = {n: getattr(_pyrandom, n) for n in PY_NAMES}
    gs = GlobalStreams(sym)
    # replay of a counterexample: the model says what the two global streams returned, so the scripted streams are used again
    # (witness replays have no such values: the twins then see the REAL global generators, seeded differently before every call)
    scripted = sym.symbolic or any(k.startswith(("g_", "gi_")) for k in (sym.concrete or {}))
    if scripted:
        for n in NP_NAMES:
            setattr(np.random, n, getattr(gs, n))
        for n in PY_NAMES:
            setattr(_pyrandom, n, gs.py_randint if n == "randint" else getattr(gs, n))
    try:
        gs.tag = "a"
        if not scripted:
            np.random.seed(101); _pyrandom.seed(101)
        A = make_scheduler(kind, mode="min", max_t=max_t, seed=5, **kw)
        gs.tag = "b"
        if not scripted:
            np.random.seed(977); _pyrandom.seed(977)
        B = make_scheduler(kind, mode="min", max_t=max_t, seed=5, **dict(kw))
        tw = Twin(sym, A, B, W=W, T=T, E=E, max_t=max_t if mf else None, multi_fidelity=mf, max_fail=max_fail,
                  allow_complete=not mf, code="C11", concrete_metrics=concrete_metrics)
        state = {"n": 0}

        def ctx(which):
            gs.tag = which
            if not scripted:
                # concrete replay: the twins see differently seeded global generators before every call
                state["n"] += 1
                s = (1000 if which == "a" else 5000) + state["n"]
                np.random.seed(s); _pyrandom.seed(s)
        tw.ctx = ctx
        tw.run()
        if gs.calls:
            sym.goal("global-rng-called")
        sym.event("global generator calls: %d" % gs.calls)
    finally:
        for n, f in saved_np.items():
            setattr(np.random, n, f)
        for n, f in saved_py.items():
            setattr(_pyrandom, n, f)


ASSUME = [
    "stub globalrng: numpy.random.{uniform,rand,random,random_sample,randint,choice,normal,randn,seed,shuffle,permutation} and random.{random,uniform,randint,choice,shuffle,sample,seed,gauss} return fresh symbolic values (shuffle/permutation/sample: an arbitrary rotation); other global entry points (e.g. numpy.random.beta) are not intercepted",
    "both twins live in one process and are interleaved call by call, so each is 'another scheduler object created in the same process' for the other",
    "hash randomisation and fresh-process twins are not solver variables: the concrete replays of the witnesses re-run the twins with differently seeded global generators, and each witness is re-run in fresh interpreters under PYTHONHASHSEED 0..6 with the event traces (all suggestions and decisions) compared (concrete supplement, code C11.hash-seed-dependence)",
    "GP-based searchers only before their first model fit; MOASHA takes no random_seed and is outside",
]


def obligations(tier):
    quick = tier == "quick"
    obs = []
    sp = (("c1", (0, 1, 2)), ("c2", (0, 1, 2, 3)))
    for kind, extra in (("fifo-random", {}), ("fifo-grid", {}), ("fifo-bo", {}), ("fifo-rea", {}), ("stopping", dict(brackets=2)), ("promotion", dict(brackets=2)),
                        ("sync", {}), ("dehb", {}), ("pbt", {}), ("median", {})):
        E = {"median": 7, "fifo-bo": 6, "dehb": 9}.get(kind, 8)
        mt = 2 if kind in ("sync", "dehb") else 4
        p = dict(kind=kind, W=3 if kind == "median" else 2, T=3 if kind not in ("sync", "dehb") else 4, E=E, max_t=mt, max_fail=1 if kind in ("stopping", "promotion", "sync", "dehb") else 0, **extra)
        if kind == "pbt":
            # population of 4: the upper quantile holds two trials, so the clone source is a real random choice
            p.update(W=4, T=5, E=9, population_size=4, concrete_metrics=True)
        obs.append(Ob("C11.a[%s%s]" % (kind, ",B=2" if extra else ""), "props.c11:h_noninterference", p,
                      bounds=dict(T=p["T"], E=p["E"], W=p["W"], max_t=mt, hash_seeds="witnesses re-run under PYTHONHASHSEED 0..6"),
                      goals=("end",) + (("suggest-after-2-completions",) if kind == "fifo-rea" else ()), hash_seeds=(1, 2, 3, 4, 5, 6), split=sp if kind != "pbt" else (("c4", (0, 1, 2, 3)), ("c5", (0, 1, 2, 3))), budget_s=1800, may_be_incomplete=not quick,
                      stubs=("globalrng", "fmt")))
    return obs


def run(tier, seed, only=None):
    obs = obligations(tier)
    if only:
        obs = [o for o in obs if only in o.name]
    return run_property("C11", obs, tier, seed, assumptions=ASSUME,
                        explanation="non-interference twins: identical suggestions/decisions under independent arbitrary global-RNG streams")
