"""C03  Stopping-type asynchronous Hyperband decides by the documented quantile rule.

Real code under symbolic execution: HyperbandScheduler (type stopping / rush_stopping) with the
real RandomSearcher, HyperbandBracketManager, StoppingRungSystem, Rung (SortedList).
Symbolic: metric of every report (reals), who acts next among <= W running trials, bracket of
every new trial.  Oracle: rung contents + numpy-linear quantile recomputed in the harness."""
from symx.runner import Ob, run_property
from harness.common import OneHotBrackets, ref_rung_levels, ref_quantile, make, new_trial

TOL = 1e-7


def h_stopping(sym, mode="min", typ="stopping", B=1, perb=False, T=3, E=8, W=2, max_t=9,
               grace=1, rf=3, incr=None, explicit=None, seed=0):
    from syne_tune.optimizer.schedulers.hyperband import HyperbandScheduler
    from syne_tune.config_space import uniform

    cs = {"x": uniform(0, 1), "epochs": max_t}
    kw = dict(searcher="random", metric="m", mode=mode, resource_attr="r", max_resource_attr="epochs",
              type=typ, brackets=B, rung_system_per_bracket=perb, random_seed=seed)
    if explicit is not None:
        kw["rung_levels"] = list(explicit)
    else:
        kw["grace_period"] = grace
        if incr is not None:
            kw["rung_increment"] = incr
            kw["reduction_factor"] = None
        else:
            kw["reduction_factor"] = rf
    sch = make(HyperbandScheduler, cs, **kw)
    levels = ref_rung_levels(grace, max_t, rf=None if incr is not None or explicit is not None else rf,
                             incr=incr, explicit=explicit)
    nb = min(B, len(levels) + 1)
    dist = OneHotBrackets(nb)
    sch.bracket_distribution = dist
    trials = {}
    level = {}
    running = []
    bracket = {}
    rungs = {}      # (system, rung level) -> list of (trial, value)
    for step in range(E):
        can_start = len(running) < W and len(trials) < T
        nopt = len(running) + (1 if can_start else 0)
        if nopt == 0:
            break
        cc = sym.choice("c%d" % step, nopt)
        if cc == len(running):
            tid = len(trials)
            b = sym.choice("b%d" % tid, nb)
            dist.next = b
            s = sch.suggest(tid)
            sym.check(s is not None and s.spawn_new_trial_id, "C03.suggest-not-new", "stopping type must start new trials")
            trials[tid] = new_trial(tid, s.config)
            sch.on_trial_add(trials[tid])
            level[tid] = 0
            bracket[tid] = b
            running.append(tid)
            sym.event("start t%d bracket %d" % (tid, b))
            continue
        tid = running[cc]
        level[tid] += 1
        r = level[tid]
        v = sym.real("m_%d_%d" % (tid, r), -100, 100)
        d = sch.on_trial_result(trials[tid], {"m": v, "r": r})
        b = bracket[tid]
        own = levels[b:] if b < len(levels) else []
        expect = None
        if r >= max_t:
            expect = "STOP"
            sym.goal("stop-at-max")
        elif r in own:
            key = (b if perb else 0, r)
            entries = rungs.setdefault(key, [])
            sym.check(all(t != tid for t, _ in entries), "C03.rung-entered-twice")
            entries.append((tid, v))
            vals = [x for _, x in entries]
            if len(vals) < 2:
                expect = "CONTINUE"
            else:
                j = levels.index(r)
                nxt = levels[j + 1] if j + 1 < len(levels) else max_t
                q = r / nxt
                cut = ref_quantile(vals, q if mode == "min" else 1 - q)
                if mode == "min":
                    if v < cut - TOL:
                        expect = "CONTINUE"
                    elif v > cut + TOL:
                        expect = "STOP"
                else:
                    if v > cut + TOL:
                        expect = "CONTINUE"
                    elif v < cut - TOL:
                        expect = "STOP"
                if expect == "STOP":
                    sym.goal("stop-at-rung")
                if expect == "CONTINUE" and len(vals) >= 2:
                    sym.goal("continue-at-rung")
                if b > 0:
                    sym.goal("bracket-offset")
        else:
            expect = "CONTINUE"
        sym.event("t%d r=%d -> %s (expect %s)" % (tid, r, d, expect))
        if expect is None:
            sym.fragile()
        if expect is not None:
            sym.check(d == expect, "C03.decision", "trial %d level %d bracket %d: got %s, quantile rule says %s" % (tid, r, b, d, expect))
        else:
            sym.check(d in ("CONTINUE", "STOP"), "C03.decision-kind", str(d))
        if d != "CONTINUE":
            running.remove(tid)
    # rung contents as the scheduler sees them (public snapshot API) == reference
    for bb in range(nb):
        snap = sch.terminator.snapshot_rungs(bb)
        for (lv, data) in snap:
            key = (bb if perb else 0, lv)
            ref = sorted(t for t, _ in rungs.get(key, []))
            got = sorted(int(e.trial_id) for e in data)
            sym.check(ref == got, "C03.rung-contents", "system/level %s: scheduler has %s, reference %s" % (key, got, ref))
    sym.goal("end")


ASSUME = [
    "exact real arithmetic for metric values (z3 Real); decisions with the metric within 1e-7 of the quantile are unconstrained (the property's own round-off exemption)",
    "searcher = real RandomSearcher; suggestions' config values are not constrained here (C06)",
    "bracket of each new trial chosen through the public scheduler.bracket_distribution extension point (one-hot), covering every assignment the default distribution can sample",
    "a stopped trial is removed from the running set (what every backend does)",
    "stub fmt: formatting a symbolic metric in log messages yields '<sym>'",
]


def obligations(tier):
    obs = []
    quick = tier == "quick"
    for mode in ("min", "max"):
        # B=1, 3 rung levels 1,3 / max_t 9
        obs.append(Ob("C03.a[%s,B=1,T=4]" % mode, "props.c03:h_stopping",
                      dict(mode=mode, B=1, T=4 if quick else 5, E=8 if quick else 9, W=2),
                      bounds=dict(T=4 if quick else 5, E=8 if quick else 9, W=2, levels=[1, 3], max_t=9, metrics="reals in [-100,100]"),
                      goals=("stop-at-rung", "continue-at-rung", "end"),
                      split=(("c1", (0, 1)), ("c2", (0, 1, 2)), ("c3", (0, 1, 2))), budget_s=1500,
                      may_be_incomplete=not quick))
        for perb in (False, True):
            obs.append(Ob("C03.b[%s,B=2,%s]" % (mode, "per-bracket" if perb else "shared"), "props.c03:h_stopping",
                          dict(mode=mode, B=2, perb=perb, T=3 if quick else 4, E=8 if quick else 9, W=2),
                          bounds=dict(T=3 if quick else 4, E=8 if quick else 9, W=2, B=2, levels=[1, 3], max_t=9),
                          goals=("stop-at-rung", "continue-at-rung", "bracket-offset", "end"),
                          split=(("b0", (0, 1)), ("b1", (0, 1)), ("c1", (0, 1)), ("c2", (0, 1, 2))), budget_s=1500,
                          may_be_incomplete=not quick))
    # other rung-level systems / rush_stopping (quantile part; no threshold candidates)
    extra = [
        ("rush", dict(typ="rush_stopping", mode="min", B=1, T=3, E=7, W=2)),
        ("incr", dict(mode="max", B=2, T=3, E=7, W=2, incr=2, max_t=5)),
        ("explicit", dict(mode="min", B=3, perb=True, T=3, E=7, W=2, explicit=[1, 2, 4], max_t=5)),
        ("rf2", dict(mode="max", B=1, T=3, E=8, W=2, rf=2, max_t=4)),
    ]
    for name, p in extra:
        obs.append(Ob("C03.c[%s]" % name, "props.c03:h_stopping", p, bounds=p,
                      goals=("stop-at-rung", "end") + (("stop-at-max",) if name == "rf2" else ()), split=(("c1", (0, 1)), ("c2", (0, 1, 2))), budget_s=1200))
    return obs


def run(tier, seed, only=None):
    obs = obligations(tier)
    if only:
        obs = [o for o in obs if only in o.name]
    return run_property("C03", obs, tier, seed, assumptions=ASSUME,
                        explanation="bounded symbolic execution of the real stopping-type HyperbandScheduler against a quantile-rule reference; every metric valuation / report order / bracket assignment within the bounds")
