"""C03  Stopping-type asynchronous Hyperband decides by the documented quantile rule.

Real code under symbolic execution: HyperbandScheduler (type stopping / rush_stopping) with the
real RandomSearcher, HyperbandBracketManager, StoppingRungSystem, Rung (SortedList).
Symbolic: metric of every report (reals), who acts next among <= W running trials, bracket of
every new trial.  Oracle: rung contents + numpy-linear quantile recomputed in the harness."""
from symx.runner import Ob, run_property
from harness.common import OneHotBrackets, ref_rung_levels, ref_quantile, make, new_trial

TOL = 1e-7


def h_stopping(sym, mode="min", typ="stopping", B=1, perb=False, T=3, E=8, W=2, max_t=9,
               grace=1, rf=3, incr=None, explicit=None, seed=0, ntc=0):
    from syne_tune.optimizer.schedulers.hyperband import HyperbandScheduler
    from syne_tune.config_space import uniform

    cs = {"x": uniform(0, 1), "epochs": max_t}
    kw = dict(searcher="random", metric="m", mode=mode, resource_attr="r", max_resource_attr="epochs",
              type=typ, brackets=B, rung_system_per_bracket=perb, random_seed=seed)
    if explicit is not None:
        kw["rung_levels"] = list(explicit)
    else:
        kw["grace_period"] = grace
        if incr is not None:
            kw["rung_increment"] = incr
            kw["reduction_factor"] = None
        else:
            kw["reduction_factor"] = rf
    if ntc:
        # RUSH: the first ntc trials are threshold candidates
        kw["rung_system_kwargs"] = {"num_threshold_candidates": ntc}
    sch = make(HyperbandScheduler, cs, **kw)
    thr = {}        # RUSH reference: rung level -> best metric of a candidate that continued there
    levels = ref_rung_levels(grace, max_t, rf=None if incr is not None or explicit is not None else rf,
                             incr=incr, explicit=explicit)
    nb = min(B, len(levels) + 1)
    dist = OneHotBrackets(nb)
    sch.bracket_distribution = dist
    trials = {}
    level = {}
    running = []
    bracket = {}
    rungs = {}      # (system, rung level) -> list of (trial, value)
    for step in range(E):
        can_start = len(running) < W and len(trials) < T
        nopt = len(running) + (1 if can_start else 0)
        if nopt == 0:
            break
        cc = sym.choice("c%d" % step, nopt)
        if cc == len(running):
            tid = len(trials)
            b = sym.choice("b%d" % tid, nb)
            dist.next = b
            s = sch.suggest(tid)
            sym.check(s is not None and s.spawn_new_trial_id, "C03.suggest-not-new", "stopping type must start new trials")
            trials[tid] = new_trial(tid, s.config)
            sch.on_trial_add(trials[tid])
            level[tid] = 0
            bracket[tid] = b
            running.append(tid)
            sym.event("start t%d bracket %d" % (tid, b))
            continue
        tid = running[cc]
        level[tid] += 1
        r = level[tid]
        v = sym.real("m_%d_%d" % (tid, r), -100, 100)
        d = sch.on_trial_result(trials[tid], {"m": v, "r": r})
        b = bracket[tid]
        own = levels[b:] if b < len(levels) else []
        expect = None
        if r >= max_t:
            expect = "STOP"
            sym.goal("stop-at-max")
        elif r in own:
            key = (b if perb else 0, r)
            entries = rungs.setdefault(key, [])
            sym.check(all(t != tid for t, _ in entries), "C03.rung-entered-twice")
            entries.append((tid, v))
            vals = [x for _, x in entries]
            if len(vals) < 2:
                expect = "CONTINUE"
            else:
                j = levels.index(r)
                nxt = levels[j + 1] if j + 1 < len(levels) else max_t
                q = r / nxt
                cut = ref_quantile(vals, q if mode == "min" else 1 - q)
                if mode == "min":
                    if v < cut - TOL:
                        expect = "CONTINUE"
                    elif v > cut + TOL:
                        expect = "STOP"
                else:
                    if v > cut + TOL:
                        expect = "CONTINUE"
                    elif v < cut - TOL:
                        expect = "STOP"
                if ntc and expect == "CONTINUE" and tid >= ntc and r in thr:
                    # RUSH (documented): on top of the quantile rule, a trial that is not a threshold candidate must be at
                    # least as good as the best candidate seen at this rung; it can only stop MORE trials
                    if (v > thr[r]) if mode == "min" else (v < thr[r]):
                        expect = "STOP"
                        sym.goal("stopped-by-threshold")
                if expect == "STOP":
                    sym.goal("stop-at-rung")
                if expect == "CONTINUE" and len(vals) >= 2:
                    sym.goal("continue-at-rung")
                if b > 0:
                    sym.goal("bracket-offset")
        else:
            expect = "CONTINUE"
        sym.event("t%d r=%d -> %s (expect %s)" % (tid, r, d, expect))
        if expect is None:
            sym.fragile()
        if expect is not None:
            sym.check(d == expect, "C03.decision", "trial %d level %d bracket %d: got %s, quantile rule says %s" % (tid, r, b, d, expect))
        else:
            sym.check(d in ("CONTINUE", "STOP"), "C03.decision-kind", str(d))
        if ntc and tid < ntc and d == "CONTINUE" and r in own and r < max_t:
            thr[r] = v if r not in thr else ((v if v < thr[r] else thr[r]) if mode == "min" else (v if v > thr[r] else thr[r]))
        if d != "CONTINUE":
            running.remove(tid)
    # rung contents as the scheduler sees them (public snapshot API) == reference
    for bb in range(nb):
        snap = sch.terminator.snapshot_rungs(bb)
        for (lv, data) in snap:
            key = (bb if perb else 0, lv)
            ref = sorted(t for t, _ in rungs.get(key, []))
            got = sorted(int(e.trial_id) for e in data)
            sym.check(ref == got, "C03.rung-contents", "system/level %s: scheduler has %s, reference %s" % (key, got, ref))
    sym.goal("end")


def h_rush_unit(sym, mode="min", N=5, ntc=1, rf=2, max_t=4):
    """RUSH stopping rung system driven directly: N trials report at rung level 1 one after the other (trial ids 0..N-1, the
    first ntc are threshold candidates), every metric symbolic.  Reference: the quantile rule, and on top of it (documented
    RUSH rule) a trial that is not a candidate must be at least as good as the best candidate that continued at this rung --
    RUSH can only stop MORE trials than the quantile rule."""
    from syne_tune.optimizer.schedulers.hyperband_rush import RUSHStoppingRungSystem
    levels = ref_rung_levels(1, max_t, rf=rf)
    lp = levels[1:] + [max_t]
    rs = RUSHStoppingRungSystem(rung_levels=list(levels), promote_quantiles=[x / y for x, y in zip(levels, lp)], metric="m", mode=mode,
                                resource_attr="r", max_t=max_t, num_threshold_candidates=ntc)
    q = levels[0] / lp[0]
    vals = []
    thr = None
    order = list(range(N))
    # the candidate need not report first: a symbolic rotation of the report order
    rot = sym.choice("first", N)
    order = order[rot:] + order[:rot]
    for tid in order:
        v = sym.real("m_%d" % tid, -100, 100)
        rs.on_task_add(str(tid), skip_rungs=0)
        out = rs.on_task_report(str(tid), {"m": v, "r": levels[0]}, skip_rungs=0)
        sym.check(out["milestone_reached"], "C03.decision-kind", "unit: level %d is a rung level" % levels[0])
        d = "CONTINUE" if out["task_continues"] else "STOP"
        vals.append(v)
        expect = None
        if len(vals) < 2:
            expect = "CONTINUE"
        else:
            cut = ref_quantile(vals, q if mode == "min" else 1 - q)
            if mode == "min":
                expect = "CONTINUE" if v < cut - TOL else ("STOP" if v > cut + TOL else None)
            else:
                expect = "CONTINUE" if v > cut + TOL else ("STOP" if v < cut - TOL else None)
        if expect == "CONTINUE" and tid >= ntc and thr is not None:
            if (v > thr) if mode == "min" else (v < thr):
                expect = "STOP"
                sym.goal("stopped-by-threshold")
        if expect is None:
            sym.fragile()
        else:
            sym.check(d == expect, "C03.decision", "unit (RUSH, %d threshold candidate(s)): trial %d with %d rung entries: got %s, rule says %s" % (ntc, tid, len(vals), d, expect))
            if expect == "STOP" and tid >= ntc:
                sym.goal("stop-at-rung")
        if tid < ntc and d == "CONTINUE":
            thr = v if thr is None else ((v if v < thr else thr) if mode == "min" else (v if v > thr else thr))
        if d == "STOP":
            rs.on_task_remove(str(tid))
    sym.goal("end")


ASSUME = [
    "exact real arithmetic for metric values (z3 Real); decisions with the metric within 1e-7 of the quantile are unconstrained (the property's own round-off exemption)",
    "searcher = real RandomSearcher; suggestions' config values are not constrained here (C06)",
    "bracket of each new trial chosen through the public scheduler.bracket_distribution extension point (one-hot), covering every assignment the default distribution can sample",
    "a stopped trial is removed from the running set (what every backend does)",
    "stub fmt: formatting a symbolic metric in log messages yields '<sym>'",
]


def obligations(tier):
    obs = []
    quick = tier == "quick"
    for mode in ("min", "max"):
        # B=1, 3 rung levels 1,3 / max_t 9
        obs.append(Ob("C03.a[%s,B=1,T=4]" % mode, "props.c03:h_stopping",
                      dict(mode=mode, B=1, T=4 if quick else 5, E=8 if quick else 9, W=2),
                      bounds=dict(T=4 if quick else 5, E=8 if quick else 9, W=2, levels=[1, 3], max_t=9, metrics="reals in [-100,100]"),
                      goals=("stop-at-rung", "continue-at-rung", "end"),
                      split=(("c1", (0, 1)), ("c2", (0, 1, 2)), ("c3", (0, 1, 2))), budget_s=1500,
                      may_be_incomplete=not quick))
        for perb in (False, True):
            obs.append(Ob("C03.b[%s,B=2,%s]" % (mode, "per-bracket" if perb else "shared"), "props.c03:h_stopping",
                          dict(mode=mode, B=2, perb=perb, T=3 if quick else 4, E=8 if quick else 9, W=2),
                          bounds=dict(T=3 if quick else 4, E=8 if quick else 9, W=2, B=2, levels=[1, 3], max_t=9),
                          goals=("stop-at-rung", "continue-at-rung", "bracket-offset", "end"),
                          split=(("b0", (0, 1)), ("b1", (0, 1)), ("c1", (0, 1)), ("c2", (0, 1, 2))), budget_s=1500,
                          may_be_incomplete=not quick))
    # other rung-level systems / rush_stopping (without and with threshold candidates)
    extra = [
        ("rush", dict(typ="rush_stopping", mode="min", B=1, T=3, E=7, W=2)),
        ("incr", dict(mode="max", B=2, T=3, E=7, W=2, incr=2, max_t=5)),
        ("explicit", dict(mode="min", B=3, perb=True, T=3, E=7, W=2, explicit=[1, 2, 4], max_t=5)),
        ("rf2", dict(mode="max", B=1, T=3, E=8, W=2, rf=2, max_t=4)),
    ]
    for name, p in extra:
        obs.append(Ob("C03.c[%s]" % name, "props.c03:h_stopping", p, bounds=p,
                      goals=("stop-at-rung", "end") + (("stop-at-max",) if name == "rf2" else ()) + (("stopped-by-threshold",) if "threshold" in name else ()),
                      split=(("c1", (0, 1)), ("c2", (0, 1, 2))) + ((("c3", (0, 1, 2, 3)), ("c4", (0, 1, 2, 3, 4))) if "threshold" in name else ()), budget_s=1200))
    for mode in ("min", "max"):
        obs.append(Ob("C03.d[rush-unit,%s,threshold-candidates=1,N=4]" % mode, "props.c03:h_rush_unit", dict(mode=mode, N=4, ntc=1),
                      bounds=dict(trials=4, rung_level=1, q="1/2", candidates=1, report_order="rotation (symbolic)", metrics="symbolic"),
                      goals=("stopped-by-threshold", "stop-at-rung", "end"), split=(("first", (0, 1, 2, 3)),), budget_s=900))
    return obs


def run(tier, seed, only=None):
    obs = obligations(tier)
    if only:
        obs = [o for o in obs if only in o.name]
    return run_property("C03", obs, tier, seed, assumptions=ASSUME,
                        explanation="bounded symbolic execution of the real stopping-type HyperbandScheduler against a quantile-rule reference; every metric valuation / report order / bracket assignment within the bounds")
