"""C20  A checkpoint exists whenever a trial is resumed or warm-started from it.

Whole-run BMC of the real Tuner.run with REAL pause-and-resume schedulers (PBT, promotion
Hyperband, synchronous Hyperband) and the scripted backend keeping a set has_checkpoint;
metric values symbolic (they decide who is cloned / promoted), arrival order inside a poll and
batch sizes symbolic."""
from symx.runner import Ob, run_property
from harness.common import make
from harness.tunersim import Monitor, spy_on, ScriptBackend, LoopCallback, make_tuner
from props import c01


def h_ckpt(sym, scheduler="pbt", W=2, T=3, K=1, delete=True, max_t=2, P=8, early_removal=False, E=5, max_fail=0, rungs=None, brackets=None, sym_trials=None, eager=False):
    from syne_tune import StoppingCriterion
    from symx import stubs
    from syne_tune.config_space import uniform
    mon = Monitor(sym, W, ("C20",))
    vals = {}

    def value_fn(tid, run, r):
        key = (tid, run, r)
        if key not in vals:
            if sym_trials is not None and tid >= sym_trials:
                vals[key] = float((tid * 7 + r * 3) % 11) + 0.01 * tid      # concrete table in general position
            else:
                vals[key] = sym.real("m_%d_%d_%d" % key, -100, 100)
        return vals[key]

    if scheduler == "pbt":
        from syne_tune.optimizer.schedulers.pbt import PopulationBasedTraining
        cs = {"x": uniform(0, 1)}
        inner = make(PopulationBasedTraining, cs, metric="m", mode="min", resource_attr="r", max_t=max_t,
                     population_size=2, perturbation_interval=1, quantile_fraction=0.5, random_seed=0)
        R_of = lambda be, tid: max_t
    elif scheduler == "promotion":
        from syne_tune.optimizer.schedulers.hyperband import HyperbandScheduler
        cs = {"x": uniform(0, 1), "epochs": max_t}
        def _mk():
            extra = dict(early_checkpoint_removal_kwargs=dict(max_num_checkpoints=1, baseline="by_level")) if early_removal else {}
            return HyperbandScheduler(cs, searcher="random", metric="m", mode="min", resource_attr="r", max_resource_attr="epochs",
                                      type="promotion", grace_period=1, reduction_factor=2, random_seed=0, **extra)
        inner = make(_mk)
        R_of = lambda be, tid: be._trial_dict[tid].config["epochs"] if tid in be._trial_dict else 1
    elif scheduler == "sync":
        from syne_tune.optimizer.schedulers.synchronous import SynchronousGeometricHyperbandScheduler
        stubs.shim_modules(["syne_tune.optimizer.schedulers.synchronous.hyperband_bracket"])
        cs = {"x": uniform(0, 1), "epochs": max_t}
        if rungs:
            from syne_tune.optimizer.schedulers.synchronous.hyperband import SynchronousHyperbandScheduler
            inner = make(SynchronousHyperbandScheduler, cs, bracket_rungs=[[tuple(x) for x in r] for r in rungs], metric="m", mode="min",
                         resource_attr="r", max_resource_attr="epochs", random_seed=0)
        else:
            inner = make(SynchronousGeometricHyperbandScheduler, cs, metric="m", mode="min", resource_attr="r",
                         max_resource_attr="epochs", grace_period=1, reduction_factor=2, brackets=1, random_seed=0)
        R_of = lambda be, tid: be._trial_dict[tid].config["epochs"] if tid in be._trial_dict else 1
    elif scheduler == "dehb":
        from syne_tune.optimizer.schedulers.synchronous.hyperband_impl import GeometricDifferentialEvolutionHyperbandScheduler
        stubs.shim_modules(["syne_tune.optimizer.schedulers.synchronous.hyperband_bracket", "syne_tune.optimizer.schedulers.synchronous.dehb",
                            "syne_tune.optimizer.schedulers.synchronous.dehb_bracket"])
        cs = {"x": uniform(0, 1), "epochs": max_t}
        inner = make(GeometricDifferentialEvolutionHyperbandScheduler, cs, metric="m", mode="min", resource_attr="r", max_resource_attr="epochs",
                     grace_period=1, reduction_factor=2, random_seed=0, **({"brackets": brackets} if brackets else {}))
        R_of = lambda be, tid: be._trial_dict[tid].config["epochs"] if tid in be._trial_dict else 1
    else:
        raise AssertionError(scheduler)
    sch = spy_on(inner, mon)
    be = ScriptBackend(sym, mon, R=max_t, K=K, J=0, max_fail=max_fail, Z=0, P=P, delete_checkpoints=delete, value_fn=value_fn, R_of=R_of, eager=eager)
    be.speculative_removal = early_removal
    cb = LoopCallback(be, mon)
    tuner = make_tuner(sym, sch, be, [cb], W, StoppingCriterion(max_num_trials_started=T, max_num_evaluations=E, max_wallclock_time=10 ** 6))
    tuner.run()
    if early_removal:
        from syne_tune.callbacks.hyperband_remove_checkpoints_callback import HyperbandRemoveCheckpointsCommon
        rc = [c for c in tuner.callbacks if isinstance(c, HyperbandRemoveCheckpointsCommon)]
        sym.check(len(rc) == 1, "C20.early-removal-callback-not-installed", str(tuner.callbacks))
        reported = sorted(int(t) for t, _ in rc[0].trials_resumed_without_checkpoint())
        actual = sorted(getattr(be, "resumed_without_ckpt", []))
        sym.check(reported == actual, "C20.resumed-without-checkpoint-list", "callback reports %s, backend saw resumes without checkpoint for %s" % (reported, actual))
        if rc[0].num_checkpoints_removed > 0:
            sym.goal("checkpoint-removed-early")
    sym.goal("end")


ASSUME = [
    "REAL schedulers (PopulationBasedTraining, promotion-type HyperbandScheduler, Synchronous(Geometric)HyperbandScheduler) inside the real Tuner.run; their notification methods are wrapped on the instance by a forwarding spy, so the tuner installs the checkpoint-removal callback exactly as for the plain object",
    "ScriptBackend: a trial has a checkpoint once it reported at least one result or received a copy; delete_checkpoint removes it; resume / copy require it",
    "training script with max_resource_attr runs to config[max_resource_attr] and exits; metrics symbolic reals (exact arithmetic)",
    "speculative early removal (early_checkpoint_removal_kwargs) is outside the quick tier",
] + c01.ASSUME[2:3]


def obligations(tier):
    quick = tier == "quick"
    obs = []
    obs.append(Ob("C20.a[pbt,W=2,delete]", "props.c20:h_ckpt", dict(scheduler="pbt", W=2, T=2 if quick else 3, K=1 if quick else 2, delete=True, E=4 if quick else 5),
                  bounds=dict(W=2, trials='<=4', results='<=6', max_t=2, K=1 if quick else 2, population=2), goals=("end",),
                  split=(("k_p2_t0", (0, 1)), ("k_p2_t1", (0, 1)), ("k_p3_t0", (0, 1)), ("k_p3_t1", (0, 1))), budget_s=1800, may_be_incomplete=not quick))
    obs.append(Ob("C20.b[promotion,W=2,delete]", "props.c20:h_ckpt", dict(scheduler="promotion", W=2, T=2 if quick else 3, K=1, delete=True, max_t=2 if quick else 4, P=10, E=4 if quick else 5),
                  bounds=dict(W=2, trials="<=3" if quick else "<=4", results="<=5" if quick else "<=6", max_t=2 if quick else 4), goals=("end", "resume"),
                  split=(("k_p2_t0", (0, 1)), ("k_p2_t1", (0, 1)), ("end_p2_t0", (0, 1)), ("end_p2_t1", (0, 1))), budget_s=1800, may_be_incomplete=not quick))
    obs.append(Ob("C20.c[sync,W=2,delete]", "props.c20:h_ckpt", dict(scheduler="sync", W=2, T=2 if quick else 3, K=1, delete=True, max_t=2, P=10, E=5),
                  bounds=dict(W=2, trials="<=3" if quick else "<=4", results="<=5" if quick else "<=6", max_t=2), goals=("end",),
                  split=(("k_p2_t0", (0, 1)), ("k_p2_t1", (0, 1)), ("end_p2_t0", (0, 1)), ("end_p2_t1", (0, 1))), budget_s=1800, may_be_incomplete=not quick))
    # a failed job inside a rung: the not-promoted list handed to the checkpoint-removal callback must not name a promoted trial
    obs.append(Ob("C20.c[sync,W=3,rungs=(3,1)(1,3),failure]", "props.c20:h_ckpt",
                  dict(scheduler="sync", W=3, T=3, K=1, delete=True, max_t=3, P=8, E=5, max_fail=1, rungs=[[[3, 1], [1, 3]]]),
                  bounds=dict(W=3, trials="<=4", results="<=6", rungs="(3,1)(1,3)", failures="<=1"), goals=("end", "failure", "resume"),
                  split=(("k_p2_t0", (0, 1)), ("k_p2_t1", (0, 1)), ("k_p2_t2", (0, 1))), budget_s=1800))
    # speculative early removal explicitly requested: only paused trials lose their checkpoint, and the callback's
    # list of 'resumed without checkpoint' is exactly what the backend saw
    obs.append(Ob("C20.e[promotion,early-removal,max_num_checkpoints=1]", "props.c20:h_ckpt",
                  dict(scheduler="promotion", W=2, T=2, K=1, delete=True, max_t=2, P=10, E=4, early_removal=True),
                  bounds=dict(W=2, trials="<=3", results="<=5", max_t=2, max_num_checkpoints=1, baseline="by_level"), goals=("end", "checkpoint-removed-early"),
                  split=(("k_p2_t0", (0, 1)), ("k_p2_t1", (0, 1)), ("end_p2_t0", (0, 1)), ("end_p2_t1", (0, 1))), budget_s=1800))
    # DEHB: only trials of the first bracket are paused and resumed, all others are stopped; with fewer brackets than rung levels too
    obs.append(Ob("C20.f[dehb,brackets=1,max_t=4,W=1,delete]", "props.c20:h_ckpt", dict(scheduler="dehb", W=1, T=8, K=1, delete=True, max_t=4, P=14, E=7, brackets=1, sym_trials=1, eager=True),
                  bounds=dict(W=1, trials="<=8", results="<=7", max_t=4, brackets=1, metrics="symbolic for trial 0, concrete table for the others", workers="one report per poll (no schedule choice)"), goals=("end", "resume"), budget_s=1800))
    obs.append(Ob("C20.d[promotion,no-delete]", "props.c20:h_ckpt", dict(scheduler="promotion", W=2, T=2, K=1, delete=False, max_t=2, P=8),
                  bounds=dict(W=2, T=2, max_t=2, delete_checkpoints=False), goals=("end",), budget_s=1800))
    return obs


def run(tier, seed, only=None):
    obs = obligations(tier)
    if only:
        obs = [o for o in obs if only in o.name]
    return run_property("C20", obs, tier, seed, assumptions=ASSUME,
                        explanation="checkpoint life cycle with real pause/resume schedulers inside the real tuning loop; resume / warm-start only while the checkpoint exists")
