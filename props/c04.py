"""C04  Promotion-type Hyperband (ASHA, PASHA, cost-aware, RUSH) promotes only eligible trials.

Real code: HyperbandScheduler (type promotion / rush_promotion / cost_promotion / pasha) with the
real RandomSearcher, HyperbandBracketManager, PromotionRungSystem & subclasses.  Symbolic: metric
(and cost) of every report, interleaving of suggest calls and reports of <= W running trials.
Oracle: reference model of rung contents {trial: (metric, promoted?)} + eligibility rule."""
from symx.runner import Ob, run_property
from harness.common import ref_rung_levels, ref_quantile, make, new_trial

TOL = 1e-7


def h_promotion(sym, typ="promotion", mode="min", T=3, E=8, W=2, max_t=4, grace=1, rf=2, ckpt=True,
                max_resource_attr=True, concrete_metrics=False, explicit=None, B=1, table="mod5"):
    from syne_tune.optimizer.schedulers.hyperband import HyperbandScheduler
    from syne_tune.config_space import uniform

    cs = {"x": uniform(0, 1), "epochs": max_t}
    kw = dict(searcher="random", metric="m", mode=mode, resource_attr="r", type=typ, grace_period=grace,
              reduction_factor=rf, random_seed=1)
    if explicit is not None:
        kw["rung_levels"] = list(explicit)
    if max_resource_attr:
        kw["max_resource_attr"] = "epochs"
    else:
        kw["max_t"] = max_t
    cost = typ == "cost_promotion"
    if cost:
        kw["cost_attr"] = "c"
    if B > 1:
        kw["brackets"] = B
    sch = make(HyperbandScheduler, cs, **kw)
    levels = ref_rung_levels(grace, max_t, rf=rf, explicit=explicit)
    nb = min(B, len(levels) + 1)
    dist = None
    if B > 1:
        # brackets share one rung system: the bracket drawn for a request for work decides the first rung level of a NEW trial
        # (rung b), promotions are looked for in all rungs and go exactly one rung up.  The bracket is a solver variable.
        from harness.common import OneHotBrackets
        dist = OneHotBrackets(nb)
        sch.bracket_distribution = dist

    def better(a, b):
        return a < b if mode == "min" else a > b

    trials, level, running, target, resume_from = {}, {}, [], {}, {}
    run_cost = {}
    total_cost = {}
    rung = {l: {} for l in levels}      # level -> {trial: [metric, promoted, total cost]}
    pasha_cap = None
    for step in range(E):
        nopt = len(running) + (1 if len(running) < W else 0)
        if nopt == 0:
            break
        cc = sym.choice("c%d" % step, nopt)
        if cc == len(running):
            # ---- reference: which promotion is required / allowed now -----------------------
            must, may, lvl_may, ambiguous = None, set(), None, False
            bq = 0
            if dist is not None:
                bq = sym.choice("b%d" % step, nb)
                dist.next = bq
                if bq >= 2:
                    sym.goal("bracket>=2")
            cap = max_t
            if typ == "pasha":
                cap = sch.terminator._rung_systems[0].current_max_t
                sym.check(pasha_cap is None or cap >= pasha_cap, "C04.pasha-cap-decreased", "%s -> %s" % (pasha_cap, cap))
                pasha_cap = cap
            for j in range(len(levels) - 1, -1, -1):
                l = levels[j]
                if l >= cap:
                    continue
                ent = rung[l]
                if len(ent) < 2:
                    continue
                nxt = levels[j + 1] if j + 1 < len(levels) else max_t
                q = l / nxt
                unp = [(t, e[0]) for t, e in ent.items() if not e[1]]
                if not unp:
                    continue
                bestv = unp[0][1]
                for t, v in unp:
                    if better(v, bestv):
                        bestv = v
                bests = [t for t, v in unp if v == bestv]
                if cost:
                    # documented rule: rank all entries best first, C(k) cumulative cost, K = max k with C(k) <= q*C(N);
                    # an unpromoted trial of rank <= K can be promoted, the best such one is taken
                    order = sorted(ent.items(), key=lambda kv: kv[1][0] if mode == "min" else -kv[1][0])
                    totalc = sum(e[2] for _, e in order)
                    acc = 0
                    ok = False
                    for t, e in order:
                        acc = acc + e[2]
                        if acc > q * totalc:
                            break
                        if not e[1]:
                            ok = (t in bests)
                            break
                    vals_ = [e[0] for _, e in order]
                    tie = any(abs(a - b) <= TOL for a, b in zip(vals_, vals_[1:]))     # ranking not unique
                    near = abs(acc - q * totalc) <= 1e-6 or any(abs(e[2]) < 1e-6 for _, e in order)
                    margin = tie or near
                    if margin:
                        ambiguous = True
                        sym.fragile()
                        break
                    if ok:
                        must, may, lvl_may = set(bests), set(bests), l
                        break
                    continue
                cut = ref_quantile([e[0] for e in ent.values()], q if mode == "min" else 1 - q)
                clearly_ok = better(bestv, cut - TOL) if mode == "min" else better(bestv, cut + TOL)
                clearly_bad = better(cut + TOL, bestv) if mode == "min" else better(cut - TOL, bestv)
                if clearly_bad:
                    continue
                may, lvl_may = set(bests), l
                if clearly_ok:
                    must = set(bests)
                else:
                    ambiguous = True
                    sym.fragile()
                break
            s = sch.suggest(len(trials))
            sym.check(s is not None, "C04.suggest-none", "")
            if s.spawn_new_trial_id:
                sym.check(must is None, "C04.eligible-trial-not-promoted", "trial(s) %s at rung %s are eligible but a new trial is started" % (must, lvl_may))
                if len(trials) >= T:
                    break
                tid = len(trials)
                trials[tid] = new_trial(tid, s.config)
                sch.on_trial_add(trials[tid])
                level[tid] = 0
                first = levels[bq] if bq < len(levels) else max_t
                if max_resource_attr:
                    sym.check(s.config["epochs"] == first, "C04.first-milestone", "new trial (bracket %d) told to run to %s, its first rung level is %s" % (bq, s.config["epochs"], first))
                target[tid] = first
                resume_from[tid] = 0
                total_cost[tid] = 0
                sym.event("start t%d" % tid)
            else:
                tid = s.checkpoint_trial_id
                sym.goal("promotion")
                if not ambiguous:
                    sym.check(tid in may, "C04.promoted-non-eligible", "trial %s promoted, eligible set %s (rung %s)" % (tid, sorted(may), lvl_may))
                sym.check(tid not in running, "C04.promoted-running-trial", str(tid))
                l = level_paused = target[tid]
                sym.check(l in rung and tid in rung[l], "C04.promoted-without-rung-entry", "")
                sym.check(not rung[l][tid][1], "C04.promoted-twice", "trial %s promoted from rung %s a second time" % (tid, l))
                if not ambiguous and lvl_may is not None:
                    sym.check(l == lvl_may, "C04.promoted-from-lower-rung", "promoted from rung %s although rung %s holds an eligible trial" % (l, lvl_may))
                rung[l][tid][1] = True
                nxt = levels[levels.index(l) + 1] if levels.index(l) + 1 < len(levels) else max_t
                if max_resource_attr:
                    sym.check(s.config is not None and s.config["epochs"] == nxt, "C04.next-milestone", "resumed trial told to run to %s, next rung level is %s" % (s.config and s.config.get("epochs"), nxt))
                    trials[tid].config = s.config
                if typ == "pasha":
                    sym.check(nxt <= cap, "C04.pasha-cap-exceeded", "promotion target %s > current cap %s" % (nxt, cap))
                target[tid] = nxt
                resume_from[tid] = l
                if not ckpt:
                    level[tid] = 0
                    total_cost[tid] = 0
                sym.event("resume t%d from %d to %d" % (tid, l, nxt))
            run_cost[tid] = 0
            running.append(tid)
            continue
        tid = running[cc]
        level[tid] += 1
        r = level[tid]
        if concrete_metrics and table == "improving":
            v = 10.0 - tid - 0.25 * r           # every new trial is better than all earlier ones, at every level
        elif concrete_metrics:
            v = float((tid * 7 + r * 3) % 5) + 0.1 * tid
        else:
            v = sym.real("m_%d_%d_%d" % (tid, r, step), -100, 100)
        res = {"m": v, "r": r}
        if cost:
            ci = sym.real("c_%d_%d_%d" % (tid, r, step), 0, 10)
            run_cost[tid] = run_cost[tid] + ci
            total_cost[tid] = total_cost[tid] + ci
            res["c"] = run_cost[tid]
        cap_before = sch.terminator._rung_systems[0].current_max_t if typ == "pasha" else None
        d = sch.on_trial_result(trials[tid], res)
        sym.event("t%d r=%d -> %s" % (tid, r, d))
        sym.check(r <= max_t, "C04.beyond-max-resource", "")
        if typ == "pasha":
            # PASHA (documented): the resource cap grows only when the ranking of the trials in the top rung DISAGREES with
            # their ranking in the rung below (soft ranking can only make it grow less often).  Reference, independent of the
            # scheduler's own bookkeeping: a pair of trials present in both rungs whose order differs, or a tie.
            cap_after = sch.terminator._rung_systems[0].current_max_t
            if cap_after > cap_before and cap_before in levels and levels.index(cap_before) >= 1:
                top = dict((t, e[0]) for t, e in rung[cap_before].items())
                if r == cap_before:
                    top[tid] = v
                prev = dict((t, e[0]) for t, e in rung[levels[levels.index(cap_before) - 1]].items())
                both = [t for t in top if t in prev]
                disagree = any((top[a] - top[b]) * (prev[a] - prev[b]) <= 0 for i, a in enumerate(both) for b in both[i + 1:])
                sym.check(disagree, "C04.pasha-cap-grew-without-ranking-change",
                          "cap %s -> %s although the %d trial(s) recorded at level %s are ranked exactly as at the level below (%s vs %s)" % (
                              cap_before, cap_after, len(both), cap_before, top, {t: prev[t] for t in both}))
                sym.goal("pasha-cap-grew")
        if r == target[tid]:
            sym.check(d == ("STOP" if r >= max_t else "PAUSE"), "C04.no-pause-at-milestone", "trial %d at its milestone %d: %s" % (tid, r, d))
            if r in rung:
                sym.check(tid not in rung[r], "C04.rung-entered-twice", "")
                rung[r][tid] = [v, False, total_cost.get(tid, 0)]
            if d == "PAUSE":
                sym.goal("pause")
            if d == "STOP":
                sym.goal("stop-at-max")
            sch.on_trial_remove(trials[tid])
            running.remove(tid)
        else:
            sym.check(d == "CONTINUE" and r < target[tid], "C04.decision-before-milestone", "trial %d level %d target %d: %s" % (tid, r, target[tid], d))
    sym.goal("end")


ASSUME = [
    "exact real arithmetic; decisions with the best unpromoted metric within 1e-7 of the quantile are unconstrained (property's round-off exemption); such paths are not used as witnesses",
    "searcher = real RandomSearcher; one bracket in the quick tier",
    "without checkpointing a resumed trial re-reports levels 1..resume_from (new values) before reaching its next milestone",
    "cost_promotion: per-level cost increments are symbolic reals in [0,10]; a run reports its cumulative cost since (re)start; rungs with tied metrics (ranking not unique), a (near-)zero cost or a cumulative cost within 1e-6 of the threshold are treated as ambiguous",
    "PASHA: metrics come from a concrete table (its ranking code uses numpy percentile); only the schedule is symbolic; claims: cap monotone, promotion targets <= cap, pause exactly at milestones",
]


def obligations(tier):
    quick = tier == "quick"
    obs = []
    E = 8 if quick else 9
    sp = (("c1", (0, 1)), ("c2", (0, 1, 2)), ("c3", (0, 1, 2)))
    cfgs = [
        ("promotion,min,ckpt", dict(typ="promotion", mode="min", ckpt=True)),
        ("promotion,max,no-ckpt", dict(typ="promotion", mode="max", ckpt=False)),
        ("promotion,min,no-max_resource_attr", dict(typ="promotion", mode="min", ckpt=True, max_resource_attr=False)),
        ("rush_promotion,max", dict(typ="rush_promotion", mode="max", ckpt=True)),
        # non-uniform promotion quantiles: levels 1,2 with max_t 8 give q = 1/2 and 1/4
        ("promotion,min,levels=1|2,max_t=8", dict(typ="promotion", mode="min", ckpt=True, explicit=[1, 2], max_t=8)),
        ("promotion,max,levels=1|3,max_t=4", dict(typ="promotion", mode="max", ckpt=True, explicit=[1, 3], max_t=4)),
        ("cost_promotion,min", dict(typ="cost_promotion", mode="min", ckpt=True, E=7)),
        # three brackets sharing the rung system (levels 1,2,4, max_t 8): a promotion goes one rung up whatever bracket was drawn
        ("promotion,min,B=3,max_t=8", dict(typ="promotion", mode="min", ckpt=True, B=3, max_t=8, E=7)),
        ("pasha,min", dict(typ="pasha", mode="min", ckpt=True, concrete_metrics=True, T=4, E=12, max_t=8)),
        ("pasha,min,improving-table,T=5", dict(typ="pasha", mode="min", ckpt=True, concrete_metrics=True, table="improving", T=5, E=13, max_t=8)),
    ]
    for name, c in cfgs:
        p = dict(dict(T=3, E=E, W=2), **c)
        goals = ("promotion", "pause", "end") + (("bracket>=2",) if p.get("B", 1) >= 3 else ())
        obs.append(Ob("C04.a[%s]" % name, "props.c04:h_promotion", p,
                      bounds=dict(T=p["T"], E=p["E"], W=2, max_t=p.get("max_t", 4), levels="grace 1, rf 2"), goals=goals, split=sp,
                      budget_s=1800, may_be_incomplete=not quick))
    for mode in (("min",) if quick else ("min", "max")):
        obs.append(Ob("C04.c[rung-system-unit,%s,levels=1|2,max_t=4]" % mode, "props.c04:h_rung_system_unit", dict(mode=mode),
                      bounds=dict(first_rung_entries="4 + 1 late", promotions="<=4", levels=[1, 2], max_t=4, metrics="symbolic"),
                      goals=("promotion", "two-rungs-populated", "end"), budget_s=1500,
                      split=tuple(("s%d" % k, (0, 1)) for k in range(6)),
                      note="unit level: PromotionRungSystem driven directly through on_task_add / on_task_report / on_task_schedule"))
    if not quick:
        obs.append(Ob("C04.b[promotion,min,T=4]", "props.c04:h_promotion", dict(typ="promotion", mode="min", T=4, E=11, W=2),
                      bounds=dict(T=4, E=11, W=2), goals=("promotion", "end"), split=sp + (("c4", (0, 1, 2)),), budget_s=3000, may_be_incomplete=True))
    return obs


def run(tier, seed, only=None):
    obs = obligations(tier)
    if only:
        obs = [o for o in obs if only in o.name]
    return run_property("C04", obs, tier, seed, assumptions=ASSUME,
                        explanation="promotion eligibility reference vs the real promotion-type HyperbandScheduler for every metric valuation and interleaving within bounds")


# ---------------------------------------------------------------------------------------------
# unit level: the promotion rung system driven directly (no scheduler / searcher), so that the state
# "two rungs hold an eligible trial at the same time" is reached with few symbolic values
# ---------------------------------------------------------------------------------------------
def _ref_eligible(sym, rung, levels, max_t, mode):
    """reference: scan rungs from the top; returns (must, may, level, ambiguous)"""
    def better(a, b):
        return a < b if mode == "min" else a > b
    for j in range(len(levels) - 1, -1, -1):
        l = levels[j]
        ent = rung[l]
        if len(ent) < 2:
            continue
        nxt = levels[j + 1] if j + 1 < len(levels) else max_t
        q = l / nxt
        unp = [(t, e[0]) for t, e in ent.items() if not e[1]]
        if not unp:
            continue
        bestv = unp[0][1]
        for t, v in unp:
            if better(v, bestv):
                bestv = v
        bests = [t for t, v in unp if v == bestv]
        cut = ref_quantile([e[0] for e in ent.values()], q if mode == "min" else 1 - q)
        clearly_ok = better(bestv, cut - TOL) if mode == "min" else better(bestv, cut + TOL)
        clearly_bad = better(cut + TOL, bestv) if mode == "min" else better(cut - TOL, bestv)
        if clearly_bad:
            continue
        if clearly_ok:
            return set(bests), set(bests), l, False
        sym.fragile()
        return None, set(bests), l, True
    return None, set(), None, False


def h_rung_system_unit(sym, mode="min", n_first=4, n_promote=3, rf=2, max_t=4):
    from syne_tune.optimizer.schedulers.hyperband_promotion import PromotionRungSystem
    levels = ref_rung_levels(1, max_t, rf=rf)               # [1, 3]
    lp = levels[1:] + [max_t]
    rs = PromotionRungSystem(rung_levels=list(levels), promote_quantiles=[x / y for x, y in zip(levels, lp)],
                             metric="m", mode=mode, resource_attr="r", max_t=max_t)
    rung = {l: {} for l in levels}
    nid = [0]

    pre = {}
    for t in range(n_first):
        pre[(t, levels[0])] = sym.real("m_%d_%d" % (t, levels[0]), -100, 100)
    k = 0
    for a in range(n_first):
        for b in range(a + 1, n_first):
            sym.split_on("s%d" % k, pre[(a, levels[0])] <= pre[(b, levels[0])])      # cuts the tree into independent sub-trees
            k += 1

    def report(tid, level):
        v = pre.get((tid, level))
        if v is None:
            v = sym.real("m_%d_%d" % (tid, level), -100, 100)
        out = rs.on_task_report(str(tid), {"m": v, "r": level}, skip_rungs=0)
        sym.check(out["milestone_reached"] and not out["task_continues"], "C04.no-pause-at-milestone", "unit: trial %d level %d: %s" % (tid, level, out))
        rung[level][tid] = [v, False]
        rs.on_task_remove(str(tid))

    def new_trial():
        tid = nid[0]
        nid[0] += 1
        rs.on_task_add(str(tid), skip_rungs=0, new_config=True)
        report(tid, levels[0])
        return tid

    def schedule(step):
        must, may, lvl, ambiguous = _ref_eligible(sym, rung, levels, max_t, mode)
        ret = rs.on_task_schedule(str(nid[0]))
        t = ret.get("trial_id")
        if t is None:
            sym.check(must is None, "C04.eligible-trial-not-promoted", "unit step %s: trial(s) %s at rung %s eligible, nothing promoted" % (step, must, lvl))
            return None
        t = int(t)
        sym.goal("promotion")
        frm, to = ret["resume_from"], ret["milestone"]
        if not ambiguous:
            sym.check(t in may, "C04.promoted-non-eligible", "unit step %s: trial %d promoted from rung %s, eligible %s at rung %s" % (step, t, frm, sorted(may), lvl))
            sym.check(frm == lvl, "C04.promoted-from-lower-rung", "unit step %s: promoted from rung %s although rung %s holds an eligible trial" % (step, frm, lvl))
        sym.check(frm in rung and t in rung[frm] and not rung[frm][t][1], "C04.promoted-twice", "")
        nxt = levels[levels.index(frm) + 1] if levels.index(frm) + 1 < len(levels) else max_t
        sym.check(to == nxt, "C04.next-milestone", "unit: promoted to %s, next rung level is %s" % (to, nxt))
        rung[frm][t][1] = True
        if frm == levels[-1]:
            sym.goal("promotion-from-top-rung")
        rs.on_task_add(str(t), skip_rungs=0, new_config=False, milestone=to, resume_from=frm)
        if to < max_t:
            report(t, to)
        else:
            rs.on_task_remove(str(t))
        return t
    for _ in range(n_first):
        new_trial()
    for k in range(n_promote):
        schedule("a%d" % k)
    new_trial()                     # a late, possibly very good, first-rung entry: both rungs may now hold an eligible trial
    if all(len(rung[l]) >= 2 for l in levels):
        sym.goal("two-rungs-populated")
    schedule("b0")
    sym.goal("end")
