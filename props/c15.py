"""C15  Minimising f and maximising -f are the same experiment.

Paired execution in one path: instance A (mode min, metrics v) and instance B (mode max, metrics
-v, same seed), same symbolic schedule; suggestions, decisions, promotions must be identical."""
from symx.runner import Ob, run_property
from symx import stubs
from harness.twin import Twin, make_scheduler

SHIMS = {
    "fifo-bo": ["syne_tune.optimizer.schedulers.searchers.model_based_searcher"],
    "median": ["syne_tune.optimizer.schedulers.median_stopping_rule"],
    "sync": ["syne_tune.optimizer.schedulers.synchronous.hyperband_bracket", "syne_tune.optimizer.schedulers.synchronous.hyperband"],
    "dehb": ["syne_tune.optimizer.schedulers.synchronous.hyperband_bracket", "syne_tune.optimizer.schedulers.synchronous.dehb",
             "syne_tune.optimizer.schedulers.synchronous.dehb_bracket"],
}


def h_mirror(sym, kind="stopping", W=2, T=3, E=8, max_t=4, brackets=1, max_fail=0, allow_complete=False):
    stubs.shim_modules(SHIMS.get(kind, []))
    kw = {}
    if brackets > 1:
        kw["brackets"] = brackets
    A = make_scheduler(kind, mode="min", max_t=max_t, **kw)
    B = make_scheduler(kind, mode="max", max_t=max_t, **kw)
    mf = kind not in ("fifo-random", "fifo-rea")
    tw = Twin(sym, A, B, W=W, T=T, E=E, max_t=max_t if mf else None, map_b=lambda v: -v, multi_fidelity=mf,
              max_fail=max_fail, allow_complete=allow_complete or not mf, code="C15")
    tw.run()


def h_pasha_unit(sym, n=3):
    """PASHA's resource-increase decision (unit level): soft ranking of the top two rungs with a symbolic epsilon.
    Instance A: mode min on values v; instance B: mode max on -v; same trials in both rungs."""
    from syne_tune.optimizer.schedulers.hyperband_pasha import PASHARungSystem
    def mk(mode):
        return PASHARungSystem(rung_levels=[1, 2, 4], promote_quantiles=[0.5, 0.5, 0.5], metric="m", mode=mode, resource_attr="r", max_t=8)
    A, B = mk("min"), mk("max")
    eps = sym.real("eps", 0, 10)
    A.epsilon = eps
    B.epsilon = eps
    top = [sym.real("top%d" % i, -10, 10) for i in range(n)]
    prev = [sym.real("prev%d" % i, -10, 10) for i in range(n)]
    for vals in (top, prev):
        for i in range(n):
            for j in range(i + 1, n):
                sym.assume(vals[i] != vals[j])                      # general position
                d = vals[i] - vals[j]
                sym.assume((d if d >= 0 else -d) != eps)
    def rankings(mode, sign):
        out = []
        for vals in (top, prev):
            data = sorted([(str(i), sign * v) for i, v in enumerate(vals)], key=lambda e: e[1], reverse=(mode == "max"))   # rung.data: best first
            ids = [e[0] for e in data]
            vs = [e[1] for e in data]
            rk = list(range(len(ids))) if mode == "min" else list(range(len(ids) - 1, -1, -1))
            out.append(list(zip(ids, rk, vs)))
        return out
    da = A._decide_resource_increase(rankings("min", 1))
    db = B._decide_resource_increase(rankings("max", -1))
    sym.check(da == db, "C15.pasha-resource-increase-differs", "mode min on v: increase=%s, mode max on -v: increase=%s" % (da, db))
    if da:
        sym.goal("increase")
    else:
        sym.goal("keep")
    sym.goal("end")


def h_status_mirror(sym, N=3, T=2):
    """TuningStatus / best-trial reporting: min on v == max on -v"""
    from syne_tune.tuning_status import TuningStatus, print_best_metric_found
    from syne_tune.backend.trial_status import Trial, Status
    import syne_tune.tuning_status as TS
    TS.TuningStatus.__str__ = lambda self: ""
    TS.print = lambda *a, **k: None
    a, b = TuningStatus(["m"]), TuningStatus(["m"])
    vals = []
    for i in range(N):
        tid = sym.choice("t%d" % i, T)
        v = sym.real("v%d" % i, -10, 10)
        for u in vals:
            sym.assume(u != v)          # general position (the property exempts ties)
        vals.append(v)
        tr = Trial(tid, {"x": tid}, None)
        a.update({tid: (tr, Status.in_progress)}, [(tid, {"m": v})])
        b.update({tid: (tr, Status.in_progress)}, [(tid, {"m": -v})])
    ba = print_best_metric_found(a, ["m"], "min")
    bb = print_best_metric_found(b, ["m"], "max")
    sym.check(ba[0] == bb[0], "C15.best-trial-differs", "min on v picks trial %s, max on -v picks %s" % (ba[0], bb[0]))
    sym.check(ba[1] == -bb[1], "C15.best-value-differs", "")
    sym.goal("end")


ASSUME = [
    "exact real arithmetic: -v is exact, so no decision threshold is 'within round-off' except genuine ties; ties are reachable and both instances see the same tie",
    "same random_seed for both instances; searchers random / grid / regularized evolution; DEHB mutation arithmetic runs on concrete encodings",
    "stub fmt; stub npshim on the synchronous bracket code",
    "ExperimentResult.best_config (pandas) is outside",
]


def obligations(tier):
    quick = tier == "quick"
    obs = []
    sp = (("c1", (0, 1, 2)), ("c2", (0, 1, 2, 3)))
    for kind, extra in (("stopping", {}), ("promotion", {}), ("rush_stopping", {}), ("stopping", dict(brackets=2)), ("sync", {}), ("pbt", {}),
                        ("median", {}), ("fifo-rea", {}), ("dehb", {})):
        E = {"median": 7, "rush_stopping": 6}.get(kind, 8) + (0 if quick else 1)
        mt = 2 if kind in ("sync", "dehb") else 4
        p = dict(kind=kind, W=3 if kind == "median" else 2, T=3 if kind not in ("sync", "dehb") else 4, E=E, max_t=mt, **extra)
        name = "C15.a[%s%s]" % (kind, ",B=2" if extra.get("brackets") else "")
        goals = ("end",) + {"stopping": ("stop",), "promotion": ("pause", "resume"), "rush_stopping": ("stop",), "sync": ("pause",),
                            "pbt": ("stop",), "median": ("stop",), "fifo-rea": ("complete",), "dehb": ("pause", "resume")}[kind] + (("resume",) if kind == "sync" else ())
        obs.append(Ob(name, "props.c15:h_mirror", p, bounds=dict(T=p["T"], E=p["E"], W=p["W"], max_t=p["max_t"]), goals=goals, split=sp, budget_s=1800,
                      may_be_incomplete=not quick))
    obs.append(Ob("C15.c[pasha-soft-ranking,n=3]", "props.c15:h_pasha_unit", dict(n=3), bounds=dict(trials_in_top_two_rungs=3, epsilon="symbolic in [0,10]"),
                  goals=("increase", "keep", "end"), budget_s=1200,
                  note="unit-level harness (PASHARungSystem._decide_resource_increase with rankings in the documented format): the full PASHA run needs ~25 events"))
    obs.append(Ob("C15.b[tuning-status,N=3]", "props.c15:h_status_mirror", dict(N=3, T=2), bounds=dict(results=3, trials=2), goals=("end",), budget_s=600))
    return obs


def run(tier, seed, only=None):
    obs = obligations(tier)
    if only:
        obs = [o for o in obs if only in o.name]
    return run_property("C15", obs, tier, seed, assumptions=ASSUME,
                        explanation="mirror twins: mode min on v vs mode max on -v, identical suggestions and decisions on every schedule / metric valuation within bounds")
