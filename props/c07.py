"""C07  Domains: samples and decoded vectors are members; encoding round-trips.

Real code: config_space.py (samplers of Float / Integer, Quantized, FiniteRange, OrdinalNearestNeighbor,
to_dict / from_dict), scaling.py, hp_ranges_impl.py (HyperparameterRange* classes,
scale_from_zero_one).  The module-global `np` of these modules is the shim (scalar primitives on a
symbolic value are evaluated symbolically; log/exp are fresh reals with instantiated monotone /
inverse axioms).  Exact real arithmetic."""
from symx.runner import Ob, run_property
from symx import stubs
from symx.stubs import SymArr, SymRandomState, is_sym

MODS = ["syne_tune.config_space", "syne_tune.optimizer.schedulers.searchers.utils.scaling",
        "syne_tune.optimizer.schedulers.searchers.utils.hp_ranges_impl"]
EPS = 1e-8


def _scaling(name):
    from syne_tune.optimizer.schedulers.searchers.utils.scaling import LinearScaling, LogScaling, ReverseLogScaling
    return dict(linear=LinearScaling, log=LogScaling, revlog=ReverseLogScaling)[name]()


def h_continuous(sym, scaling="linear", lower=0.0, upper=1.0, symbolic_bounds=False):
    from syne_tune.optimizer.schedulers.searchers.utils.hp_ranges_impl import HyperparameterRangeContinuous
    stubs.shim_modules(MODS)
    if symbolic_bounds:
        lower = sym.int("lower", -6, 6)
        upper = sym.int("upper", -6, 6)
        sym.assume(lower <= upper)
    r = HyperparameterRangeContinuous("x", lower, upper, _scaling(scaling))
    # (1) decode any point of the cube (incl. the admitted slack) -> member
    u = sym.real("u", -EPS, 1.0 + EPS)
    v = r.from_ndarray(SymArr([u]))
    sym.check(lower <= v <= upper, "C07.decode-not-member", "from_ndarray(u) = value outside [%s, %s]" % (lower, upper))
    # (2) encode a member -> [0,1], length 1, decodes back
    m = sym.real("m", None, None)
    sym.assume(lower <= m)
    sym.assume(m <= upper)
    enc = r.to_ndarray(m)
    sym.check(len(enc) == 1 and r.ndarray_size() == 1, "C07.encode-length", "")
    e = enc[0]
    sym.check(0.0 <= e <= 1.0, "C07.encode-outside-cube", "")
    if scaling == "linear":
        # (log / reverse-log: the encoder mixes double-rounded constants (upper_internal - lower_internal) with the abstract
        #  log, which admits spurious clipping by ~1e-16; the round trip is therefore only claimed for linear scaling)
        back = r.from_ndarray(enc if isinstance(enc, SymArr) else SymArr([e]))
        tol = 1e-7 * (m if m >= 0 else -m)
        d = back - m
        d = d if d >= 0 else -d
        sym.check(d <= tol, "C07.round-trip", "from_ndarray(to_ndarray(m)) differs from m by more than 1e-7 relative")
    if lower < upper:
        sym.goal("interval")
    else:
        sym.goal("degenerate")
    sym.goal("end")


def h_integer(sym, scaling="linear", lower=0, upper=5, symbolic_bounds=False, active=False):
    from syne_tune.optimizer.schedulers.searchers.utils.hp_ranges_impl import HyperparameterRangeInteger
    stubs.shim_modules(MODS)
    if symbolic_bounds:
        lower = sym.int("lower", -4, 4)
        upper = sym.int("upper", -4, 4)
        sym.assume(lower <= upper)
        for k in range(-4, 5):        # bounds are ints inside the implementation (int(lower_bound)): concretise by forking
            if lower == k:
                lower = k
            if upper == k:
                upper = k
    kw = {}
    if active:
        sym.assume(upper - lower >= 2)
        kw = dict(active_lower_bound=lower + 1, active_upper_bound=upper - 1)
    r = HyperparameterRangeInteger("n", lower, upper, _scaling(scaling), **kw)
    u = sym.real("u", -EPS, 1.0 + EPS)
    v = r.from_ndarray(SymArr([u]))
    sym.check(type(v) is int or (is_sym(v) and True), "C07.decode-type", str(type(v)))
    sym.check(lower <= v <= upper, "C07.decode-not-member", "decoded integer outside [%s, %s]" % (lower, upper))
    if active:
        (lo_b, hi_b), = r.get_ndarray_bounds()
        if lo_b <= u <= hi_b:
            sym.check(lower + 1 <= v <= upper - 1, "C07.decode-outside-active-range", "u inside get_ndarray_bounds() decodes outside the active sub-range")
            sym.goal("active")
    m = sym.int("m", -10 ** 6 if not isinstance(lower, int) else lower, 10 ** 6 if not isinstance(upper, int) else upper)
    sym.assume(lower <= m)
    sym.assume(m <= upper)
    enc = r.to_ndarray(m)
    e = enc[0]
    sym.check(0.0 <= e <= 1.0, "C07.encode-outside-cube", "")
    back = r.from_ndarray(enc if isinstance(enc, SymArr) else SymArr([e]))
    sym.check(back == m, "C07.round-trip", "integer %s decodes back to %s" % ("m", "other"))
    sym.goal("end")


def h_finite(sym, lower=0.1, upper=1.0, size=4, log_scale=False, cast_int=False):
    from syne_tune.config_space import FiniteRange
    from syne_tune.optimizer.schedulers.searchers.utils.hp_ranges_impl import HyperparameterRangeFiniteRange
    from syne_tune.optimizer.schedulers.searchers.utils.scaling import LinearScaling, LogScaling
    stubs.shim_modules(MODS)
    dom = FiniteRange(lower, upper, size, log_scale=log_scale, cast_int=cast_int)
    r = HyperparameterRangeFiniteRange("f", lower, upper, size, LogScaling() if log_scale else LinearScaling(), cast_int=cast_int)
    values = dom.values

    def member(z):
        # the listed values were computed in doubles, the symbolic value in exact arithmetic: compare up to 1e-9
        for x in values:
            dz = z - x
            dz = dz if dz >= 0 else -dz
            if dz <= 1e-9:
                return True
        return False
    u = sym.real("u", -EPS, 1.0 + EPS)
    v = r.from_ndarray(SymArr([u]))
    sym.check(member(v), "C07.decode-not-member", "decoded value is not one of %s" % (values,))
    # cast of an arbitrary number in [lower, upper] is a member; sample (any seed) is a member
    c = sym.real("c", lower, upper)
    cv = dom.cast(c)
    sym.check(member(cv), "C07.cast-not-member", "")
    s = dom.sample(random_state=SymRandomState(sym))
    sym.check(member(s), "C07.sample-not-member", "")
    # every member round-trips exactly
    k = sym.choice("k", size)
    m = values[k]
    enc = r.to_ndarray(m)
    e = enc[0]
    sym.check(0.0 <= e <= 1.0, "C07.encode-outside-cube", "")
    back = r.from_ndarray(enc if isinstance(enc, SymArr) else SymArr([e]))
    db = back - m
    db = db if db >= 0 else -db
    sym.check(db <= 1e-9, "C07.round-trip", "member %s decodes back to %s" % (m, back))
    sym.goal("end")


def h_sample_int(sym, kind="randint"):
    """Integer samplers with symbolic domain parameters and symbolic RNG output"""
    from syne_tune.config_space import randint, lograndint, Integer
    stubs.shim_modules(MODS)
    lo = sym.int("lower", 1 if kind == "lograndint" else -4, 6)
    hi = sym.int("upper", 1 if kind == "lograndint" else -4, 12)
    sym.assume(lo <= hi)
    for k in range(-4, 13):
        if lo == k:
            lo = k
        if hi == k:
            hi = k
    rs = SymRandomState(sym)
    if kind == "randint":
        dom = randint(lo, hi)
    elif kind == "lograndint":
        dom = lograndint(lo, hi)
    else:
        q = sym.choice("q", 4) + 1
        dom = Integer(lo, hi).quantized(q)
        if (hi - lo) >= q:
            sym.goal("quantized-wide")
    v = dom.sample(random_state=rs)
    sym.check(dom.is_valid(v), "C07.sample-not-member[%s]" % kind, "%s.sample() returned a value outside [%s, %s]" % (kind, lo, hi))
    sym.check(dom.is_valid(dom.cast(v)), "C07.cast-not-member", "")
    sym.goal("end")


def h_sample_float(sym, kind="uniform"):
    from syne_tune.config_space import uniform, loguniform, Float
    stubs.shim_modules(MODS)
    rs = SymRandomState(sym)
    if kind == "uniform":
        lo = sym.int("lower", -4, 4)
        hi = sym.int("upper", -4, 4)
        sym.assume(lo <= hi)
        dom = uniform(lo, hi)
    elif kind == "loguniform":
        lo, hi = 0.001, 100.0
        dom = loguniform(lo, hi)
    elif kind == "revlog":
        lo, hi = 0.0, 0.99
        dom = Float(lo, hi).reverseloguniform()
    else:
        lo, hi = 0.0, 1.0
        dom = Float(lo, hi).quantized(0.25)
    v = dom.sample(random_state=rs)
    sym.check(lo <= v <= hi, "C07.sample-not-member", "%s.sample() outside [%s, %s]" % (kind, lo, hi))
    sym.goal("end")


def h_ordinal_nn_active(sym, categories=(1, 4, 6, 7)):
    """linear ordinal(nn) with an active sub-range: first active position and number of active categories are solver
    variables; every vector inside get_ndarray_bounds() decodes into the active sub-range, every active member encodes inside the
    bounds and round-trips"""
    from syne_tune.optimizer.schedulers.searchers.utils.hp_ranges_impl import HyperparameterRangeOrdinalNearestNeighbor
    stubs.shim_modules(MODS)
    cats = list(categories)
    first = sym.choice("first", len(cats))
    num = 1 + sym.choice("num", len(cats) - first)
    act = cats[first:first + num]
    r = HyperparameterRangeOrdinalNearestNeighbor("o", tuple(cats), log_scale=False, active_choices=tuple(act))
    (lo, hi), = r.get_ndarray_bounds()
    sym.check(0.0 <= lo <= hi <= 1.0, "C07.encode-outside-cube", "active bounds (%s, %s)" % (lo, hi))
    u = sym.real("u", 0.0, 1.0)
    sym.assume(lo <= u)
    sym.assume(u <= hi)
    v = r.from_ndarray(SymArr([u]))
    sym.check(any(v == c for c in act), "C07.decode-outside-active-range", "categories %s, active %s: a vector inside the bounds (%s, %s) decodes to %s" % (cats, act, lo, hi, v))
    k = sym.choice("k", num)
    enc = r.to_ndarray(act[k])
    e = enc[0]
    sym.check(lo <= e <= hi, "C07.encode-outside-cube", "active member %s encodes to %s outside the active bounds" % (act[k], e))
    back = r.from_ndarray(enc if isinstance(enc, SymArr) else SymArr([e]))
    sym.check(back == act[k], "C07.round-trip", "category %s decodes back to %s" % (act[k], back))
    if 1 < num < len(cats):
        sym.goal("proper-active-sub-range")
    sym.goal("end")


def h_ordinal_nn(sym, categories=(1, 2, 5), log_scale=False):
    from syne_tune.config_space import OrdinalNearestNeighbor
    from syne_tune.optimizer.schedulers.searchers.utils.hp_ranges_impl import HyperparameterRangeOrdinalNearestNeighbor
    stubs.shim_modules(MODS)
    cats = list(categories)
    dom = OrdinalNearestNeighbor(cats, log_scale=log_scale)
    r = HyperparameterRangeOrdinalNearestNeighbor("o", tuple(cats), log_scale=log_scale)
    u = sym.real("u", -EPS, 1.0 + EPS)
    v = r.from_ndarray(SymArr([u]))
    sym.check(any(v == c for c in cats), "C07.decode-not-member", "")
    k = sym.choice("k", len(cats))
    enc = r.to_ndarray(cats[k])
    e = enc[0]
    sym.check(0.0 <= e <= 1.0, "C07.encode-outside-cube", "")
    back = r.from_ndarray(enc if isinstance(enc, SymArr) else SymArr([e]))
    sym.check(back == cats[k], "C07.round-trip", "category %s decodes back to %s" % (cats[k], back))
    s = dom.sample(random_state=SymRandomState(sym))
    sym.check(any(s == c for c in cats), "C07.sample-not-member", "")
    sym.goal("end")


def h_dict_roundtrip(sym):
    """to_dict / from_dict with symbolic integer parameters: equal domain, identical encoding bounds"""
    from syne_tune.config_space import randint, uniform, to_dict, from_dict, finrange
    stubs.shim_modules(MODS)
    lo = sym.int("lower", -5, 5)
    hi = sym.int("upper", -5, 5)
    sym.assume(lo <= hi)
    for k in range(-5, 6):
        if lo == k:
            lo = k
        if hi == k:
            hi = k
    which = sym.choice("which", 3)
    dom = [randint(lo, hi), uniform(lo, hi), randint(lo, hi).quantized(2)][which]
    try:
        back = from_dict(to_dict(dom))
    except AttributeError as e:
        sym.violation("C07.dict-round-trip[%s]" % ("quantized" if which == 2 else "plain"), "from_dict(to_dict(domain)) raises %r" % (e,))
    sym.check(back == dom, "C07.dict-round-trip", "%r != %r" % (back, dom))
    sym.check(type(back) is type(dom) and back.lower == dom.lower and back.upper == dom.upper, "C07.dict-round-trip-fields", "")
    sym.goal("end")


ASSUME = [
    "exact real arithmetic (z3 Real), not IEEE doubles: round-off-level effects (exp(log(lower)) one ulp below lower; x-0.5+1e-8 for |x| >= 2^27) are outside the claim",
    "log / exp on a symbolic argument are fresh reals constrained by instantiated axioms: strict monotonicity and injectivity against all earlier log/exp terms of the path (incl. concrete ones with their double values), sign facts; valid for every monotone inverse pair, hence for the real functions; counterexamples must replay with real numpy",
    "stub npshim on config_space / scaling / hp_ranges_impl (clip, round, rint, array([x]), .item(), isnan, divide, argmin/argmax, abs, log, exp, log1p, expm1)",
    "stub rng: RandomState.uniform / randint / choice return fresh symbolic values in the documented half-open range",
    "OUTSIDE: log-scaled integer / finite ranges (lograndint decoding, logfinrange, logordinal values) and reverse-log sampling: their membership / round trip depends on the numeric values of exp/log, which the monotone abstraction does not fix, and z3's Float64 theory does not answer within 600 s (DESIGN 4 C07)",
    "domain parameters: symbolic ints in small ranges where the arithmetic stays linear enough for z3, otherwise concrete tables (stated per obligation)",
]


def obligations(tier):
    quick = tier == "quick"
    obs = []
    for scaling, tables in (("linear", [(0.0, 1.0), (-3.0, 1e6), (2.0 ** 30, 2.0 ** 30 + 5), (1.0, 1.0)]), ("log", [(1e-3, 1e2), (1.0, 1.0), (0.5, 8.0)]), ("revlog", [(0.0, 0.99), (0.5, 0.9)])):
        for lo, hi in tables:
            obs.append(Ob("C07.a[continuous,%s,%g..%g]" % (scaling, lo, hi), "props.c07:h_continuous", dict(scaling=scaling, lower=lo, upper=hi),
                          bounds=dict(lower=lo, upper=hi, value="symbolic real", cube_point="symbolic in [-1e-8, 1+1e-8]"),
                          goals=("end",) + (("interval",) if lo < hi else ("degenerate",)), budget_s=600))
    obs.append(Ob("C07.a[continuous,linear,symbolic-bounds]", "props.c07:h_continuous", dict(scaling="linear", symbolic_bounds=True),
                  bounds=dict(bounds="ints in [-6,6]"), goals=("end", "interval", "degenerate"), split=(("lower", tuple(range(-6, 7))),), budget_s=900))
    for lo, hi in [(0, 5), (-3, 10 ** 6), (7, 7)]:
        obs.append(Ob("C07.b[integer,linear,%d..%d]" % (lo, hi), "props.c07:h_integer", dict(scaling="linear", lower=lo, upper=hi),
                      bounds=dict(lower=lo, upper=hi), goals=("end",), budget_s=600))
    obs.append(Ob("C07.b[integer,linear,symbolic-bounds]", "props.c07:h_integer", dict(scaling="linear", symbolic_bounds=True), bounds=dict(bounds="ints in [-4,4]"),
                  goals=("end",), split=(("lower", tuple(range(-4, 5))),), budget_s=900))
    # (integer / finite ranges with log scaling need the VALUES of exp, not only its monotonicity: outside, see ASSUME)
    obs.append(Ob("C07.b[integer,linear,active,symbolic-bounds]", "props.c07:h_integer", dict(scaling="linear", symbolic_bounds=True, active=True),
                  bounds=dict(bounds="ints in [-4,4], upper >= lower + 2", active="lower+1 .. upper-1 (includes 0 and negative bounds)"),
                  goals=("end", "active"), split=(("lower", tuple(range(-4, 3))),), budget_s=900))
    obs.append(Ob("C07.b[integer,linear,active,0..6]", "props.c07:h_integer", dict(scaling="linear", lower=0, upper=6, active=True), bounds=dict(lower=0, upper=6, active="1..5"),
                  goals=("end", "active"), budget_s=600))
    for (lo, hi, size, lg, ci) in [(0.1, 1.0, 4, False, False), (1, 9, 5, False, True), (2.0, 2.0, 1, False, False), (0.0, 5.0, 6, False, True),
                                 # non-divisible integer grids: real grid points exactly on k + 1/2 (k even and odd, negative too)
                                 (0, 5, 3, False, True), (0, 9, 7, False, True), (-3, 0, 3, False, True), (-3.0, 4.0, 5, False, False)]:
        obs.append(Ob("C07.c[finrange,%g..%g,size=%d%s%s]" % (lo, hi, size, ",log" if lg else "", ",cast_int" if ci else ""), "props.c07:h_finite",
                      dict(lower=lo, upper=hi, size=size, log_scale=lg, cast_int=ci), bounds=dict(lower=lo, upper=hi, size=size), goals=("end",), budget_s=900))
    for kind in ("randint", "lograndint", "qrandint"):
        obs.append(Ob("C07.d[sample,%s]" % kind, "props.c07:h_sample_int", dict(kind=kind), bounds=dict(lower="-4..6", upper="-4..12", q="1..4"),
                      goals=("end",) + (("quantized-wide",) if kind == "qrandint" else ()), split=(("lower", tuple(range(-4, 7))),), budget_s=900))
    for kind in ("uniform", "loguniform", "quniform"):
        obs.append(Ob("C07.d[sample,%s]" % kind, "props.c07:h_sample_float", dict(kind=kind), bounds=dict(), goals=("end",), budget_s=600))
    for cats in ((1, 4, 6, 7), (0.5, 2.5, 3.0, 3.25, 8.0)):
        obs.append(Ob("C07.e[ordinal-nn,%s,active-sub-range]" % (list(cats),), "props.c07:h_ordinal_nn_active", dict(categories=list(cats)),
                      bounds=dict(categories=list(cats), active="every contiguous sub-range (symbolic first position and length)"),
                      goals=("proper-active-sub-range", "end"), split=(("first", tuple(range(len(cats)))),), budget_s=600))
    for cats, lg in (((1, 2, 5), False), ((0.5, 2.0, 3.0, 10.0), False), ((1, 10, 100), True)):
        obs.append(Ob("C07.e[ordinal-nn,%s%s]" % (list(cats), ",log" if lg else ""), "props.c07:h_ordinal_nn", dict(categories=list(cats), log_scale=lg),
                      bounds=dict(categories=list(cats)), goals=("end",), budget_s=900))
    obs.append(Ob("C07.f[to_dict/from_dict]", "props.c07:h_dict_roundtrip", {}, bounds=dict(bounds="ints in [-5,5]"), goals=("end",),
                  split=(("which", (0, 1, 2)),), budget_s=600))
    return obs


def run(tier, seed, only=None):
    obs = obligations(tier)
    if only:
        obs = [o for o in obs if only in o.name]
    return run_property("C07", obs, tier, seed, assumptions=ASSUME,
                        explanation="membership of samples / casts / decoded values and encode-decode round trips over symbolic values, cube points and RNG outputs")
