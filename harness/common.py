"""helpers shared by the property harnesses (reference models are written from the property
text / public documentation, not from the implementation)"""
import numpy as np

from crosshair.core import NoTracing

from syne_tune.backend.trial_status import Trial
from syne_tune.optimizer.schedulers.searchers.bracket_distribution import BracketDistribution


class OneHotBrackets(BracketDistribution):
    """public extension point ``scheduler.bracket_distribution``: the harness decides (with a
    solver variable) which bracket the next new trial goes to"""

    def __init__(self, num):
        self.num = num
        self.next = 0

    def configure(self, scheduler):
        pass

    def __call__(self):
        p = np.zeros(self.num)
        p[self.next] = 1.0
        return p


def ref_rung_levels(grace, max_t, rf=None, incr=None, explicit=None):
    """documented rung levels: explicit list (a final max_t is stripped) or
    round(grace * rf**k) < max_t or grace + k*incr < max_t"""
    if explicit is not None:
        lv = list(explicit)
        if lv[-1] == max_t:
            lv = lv[:-1]
        return lv
    if rf is not None:
        lv = []
        k = 0
        while grace * (rf ** k) < max_t:
            lv.append(int(round(grace * (rf ** k))))
            k += 1
        return lv
    return list(range(grace, max_t, incr))


def ref_quantile(vals, q):
    """numpy 'linear' quantile of a list of (possibly symbolic) numbers; python sort (forks)"""
    s = sorted(vals)
    n = len(s)
    h = (n - 1) * q
    lo = int(h)
    g = h - lo
    hi = lo + 1 if lo + 1 < n else n - 1
    return s[lo] + g * (s[hi] - s[lo])


def make(factory, *a, **k):
    """construct a repo object outside tracing (constructors are concrete)"""
    with NoTracing():
        return factory(*a, **k)


def new_trial(tid, config):
    return Trial(trial_id=tid, config=config, creation_time=None)
