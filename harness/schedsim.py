"""SchedSim: drives a real scheduler object through its public API exactly as the tuning loop
does (suggest / on_trial_add / on_trial_result / on_trial_remove / on_trial_complete /
on_trial_error), with the *schedule* (who acts next among the <= W running trials, who fails,
who completes) and the metric values as solver variables."""
from harness.common import new_trial


class SchedSim:
    def __init__(self, sym, sch, W=2, T=3, E=8, metric="m", resource="r", max_t=None, checkpointing=True,
                 max_fail=0, allow_complete=False, multi_fidelity=True, prefix="", value_fn=None,
                 extra_fn=None, lo=-100, hi=100, code="SIM", stop_new_when_T=True, fail_first=False):
        self.sym = sym
        self.sch = sch
        self.W, self.T, self.E = W, T, E
        self.metric, self.resource, self.max_t = metric, resource, max_t
        self.checkpointing = checkpointing
        self.max_fail = max_fail
        self.allow_complete = allow_complete
        self.mf = multi_fidelity
        self.prefix = prefix
        self.value_fn = value_fn
        self.extra_fn = extra_fn
        self.lo, self.hi = lo, hi
        self.code = code
        self.trials = {}
        self.level = {}        # level last reported in the current run
        self.run_no = {}
        self.running = []
        self.paused = set()
        self.stopped = set()
        self.failed = set()
        self.completed = set()
        self.last_result = {}
        self.nfail = 0
        self.exhausted = False
        self.log = []          # (kind, tid, info) concrete-ish event log

    # metric value of a report
    def value(self, tid, r):
        name = "%sm_%d_%d_%d" % (self.prefix, tid, self.run_no[tid], r)
        if self.value_fn is not None:
            return self.value_fn(tid, self.run_no[tid], r, name)
        return self.sym.real(name, self.lo, self.hi)

    def options(self):
        opts = [("report", t) for t in self.running]
        if self.nfail < self.max_fail:
            opts += [("fail", t) for t in self.running]
        if self.allow_complete:
            opts += [("complete", t) for t in self.running if t in self.last_result and self.level[t] > 0]
        if len(self.running) < self.W and not self.exhausted:
            if not (self.sch_only_new() and len(self.trials) >= self.T):
                opts.append(("suggest", None))
        return opts

    def sch_only_new(self):
        return not self.paused

    def step(self, i, hooks):
        sym, sch = self.sym, self.sch
        opts = self.options()
        if not opts:
            return False
        kind, tid = opts[sym.choice("%sc%d" % (self.prefix, i), len(opts))]
        if kind == "suggest":
            nid = len(self.trials)
            hooks.before_suggest(self, nid)
            s = sch.suggest(nid)
            if s is None:
                self.exhausted = True
                sym.event("suggest -> None")
                hooks.after(self, "none", None, None)
                return True
            if s.spawn_new_trial_id:
                if len(self.trials) >= self.T:
                    return False       # trial budget of the bound reached: path ends here
                tid = nid
                tr = new_trial(tid, s.config)
                self.trials[tid] = tr
                sch.on_trial_add(tr)
                self.level[tid] = 0
                self.run_no[tid] = 0
                self.running.append(tid)
                sym.event("start t%d" % tid)
                hooks.after(self, "start", tid, s)
            else:
                tid = s.checkpoint_trial_id
                sym.check(tid in self.paused and tid not in self.running, self.code + ".resume-not-paused",
                          "suggest resumes trial %r which is not paused (paused=%s running=%s stopped=%s failed=%s)" % (
                              tid, sorted(self.paused), self.running, sorted(self.stopped), sorted(self.failed)))
                self.paused.discard(tid)
                if s.config is not None:
                    self.trials[tid].config = s.config
                self.run_no[tid] += 1
                self.resume_from = self.level[tid]
                if not self.checkpointing:
                    self.level[tid] = 0
                self.running.append(tid)
                sym.event("resume t%d" % tid)
                hooks.after(self, "resume", tid, s)
            return True
        if kind == "report":
            self.level[tid] += 1
            r = self.level[tid]
            v = self.value(tid, r)
            res = {self.metric: v, self.resource: r} if self.mf else {self.metric: v}
            if self.extra_fn is not None:
                res.update(self.extra_fn(self, tid, r))
            hooks.before_report(self, tid, r, v)
            d = sch.on_trial_result(self.trials[tid], res)
            self.last_result[tid] = res
            sym.event("t%d r=%d -> %s" % (tid, r, d))
            sym.check(d in ("CONTINUE", "PAUSE", "STOP"), self.code + ".decision-kind", repr(d))
            if d == "STOP":
                sch.on_trial_remove(self.trials[tid])
                self.running.remove(tid)
                self.stopped.add(tid)
            elif d == "PAUSE":
                sch.on_trial_remove(self.trials[tid])
                self.running.remove(tid)
                self.paused.add(tid)
            else:
                if self.max_t is not None:
                    sym.check(r < self.max_t, self.code + ".continue-past-max", "trial %d continues at level %d >= max_t" % (tid, r))
            hooks.after(self, "report", tid, (r, v, d))
            return True
        if kind == "fail":
            sch.on_trial_error(self.trials[tid])
            self.running.remove(tid)
            self.failed.add(tid)
            self.nfail += 1
            sym.event("fail t%d" % tid)
            hooks.after(self, "fail", tid, None)
            return True
        if kind == "complete":
            sch.on_trial_complete(self.trials[tid], self.last_result[tid])
            self.running.remove(tid)
            self.completed.add(tid)
            sym.event("complete t%d" % tid)
            hooks.after(self, "complete", tid, None)
            return True
        raise AssertionError(kind)

    def run(self, hooks=None):
        hooks = hooks or Hooks()
        for i in range(self.E):
            if not self.step(i, hooks):
                break
        hooks.end(self)


class Hooks:
    def before_suggest(self, sim, new_id):
        pass

    def before_report(self, sim, tid, r, v):
        pass

    def after(self, sim, kind, tid, info):
        pass

    def end(self, sim):
        pass
