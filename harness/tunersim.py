"""Tuner-level harness: the REAL Tuner.run() (and TrialBackend / TuningStatus / callbacks) against

* ScriptBackend: an in-memory TrialBackend subclass implementing only the abstract hooks.  Like
  LocalBackend it returns, per trial, the *cumulative* list of everything the trial's worker(s)
  ever wrote (the log file is appended to across resumes) plus the worker status.  Workers make
  progress between polls (0..K new reports per trial, completion, failure) and may still write
  j "late" reports between the poll on which the scheduler decided and the moment the process is
  killed.  All of that is chosen by the solver.
* NDS: a nondeterministic scheduler that may answer any decision and any legal suggestion
  (assume/guarantee split, DESIGN 2.2) -- or a real scheduler wrapped in a spy.
* Monitor: online automata for C01 (worker budget, life cycle, notification order), C02
  (delivery: gap-free prefix, once, in order, nothing late), C12 (termination / nothing running /
  counters), C17 (rows and statistics), C20 (checkpoint existence).
"""
from pathlib import Path

from syne_tune.backend.trial_backend import TrialBackend
from syne_tune.backend.trial_status import Status, TrialResult
from syne_tune.optimizer.scheduler import TrialScheduler, TrialSuggestion, SchedulerDecision
from syne_tune.tuner_callback import TunerCallback
from syne_tune.constants import ST_WORKER_TIMESTAMP

from crosshair.core import NoTracing

RID = "rid"     # key carrying the identity of a report: "trial:run:seq:late"


class Monitor:
    def __init__(self, sym, W, props=("C01", "C02")):
        self.sym = sym
        self.W = W
        self.props = set(props)
        self.state = {}           # tid -> run / pausing / stopping / paused / stopped / completed / failed
        self.added = set()
        self.started_ids = []
        self.delivered = {}       # (tid, run) -> list of seq delivered
        self.cur_run = {}         # tid -> run number as seen by the loop
        self.decided = {}         # (tid, run) -> decision that ended delivery
        self.ended_notified = {}  # (tid, run) -> kind
        self.tuning_over = False
        self.deliveries = []      # global order of (tid, run, seq, decision)
        self.events = 0
        self.stop_point_reached = None
        self.starts_after_stop = 0
        self.completed_view = set()
        self.cfg = {}   # trials whose last result was answered STOP while the loop already saw status completed

    def v(self, prop, cond, code, msg=""):
        if prop in self.props and not cond:
            self.sym.violation(code, msg)

    # ---- backend side -------------------------------------------------------------------
    def b_start(self, tid, backend):
        self.v("C01", tid == len(self.started_ids), "C01.id-sequence", "trial id %r issued after %s" % (tid, self.started_ids))
        self.v("C01", tid not in self.state, "C01.id-reused", str(tid))
        self.started_ids.append(tid)
        self.state[tid] = "run"
        self.cur_run[tid] = 0
        self.sym.event("backend.start t%d" % tid)
        self._budget(backend)
        if self.stop_point_reached is not None:
            self.starts_after_stop += 1
            self.v("C12", False, "C12.start-after-criterion", "trial %d started after the stopping criterion held at loop %d" % (tid, self.stop_point_reached))

    def b_resume(self, tid, backend):
        self.v("C01", self.state.get(tid) == "paused", "C01.resume-not-paused", "resume of trial %d in state %s" % (tid, self.state.get(tid)))
        self.state[tid] = "run"
        self.cur_run[tid] += 1
        self.sym.event("backend.resume t%d" % tid)
        self.sym.goal("resume")
        if self.stop_point_reached is not None:
            self.v("C12", False, "C12.start-after-criterion", "trial %d resumed after the stopping criterion held" % tid)

    def b_scheduled(self, backend):
        self._budget(backend)

    def _budget(self, backend):
        n = len(backend.in_progress())
        self.v("C01", n <= self.W, "C01.worker-budget", "%d trials occupy workers, n_workers=%d" % (n, self.W))

    def b_pause(self, tid):
        self.v("C01", self.state.get(tid) == "pausing", "C01.pause-without-decision", "backend.pause_trial(%d) in state %s" % (tid, self.state.get(tid)))
        self.sym.event("backend.pause t%d" % tid)

    def b_stop(self, tid):
        if not self.tuning_over:
            self.v("C01", self.state.get(tid) == "stopping", "C01.stop-without-decision", "backend.stop_trial(%d) in state %s" % (tid, self.state.get(tid)))
        self.sym.event("backend.stop t%d" % tid)

    # ---- scheduler side -----------------------------------------------------------------
    def s_add(self, tid):
        self.v("C01", self.state.get(tid) == "run" and tid not in self.added, "C01.add-order", "on_trial_add(%d) state=%s added=%s" % (tid, self.state.get(tid), tid in self.added))
        self.added.add(tid)

    def s_result(self, tid, result, decision):
        rid = result.get(RID)
        t, run, seq, late = [int(x) for x in rid.split(":")]
        st = self.state.get(tid)
        self.v("C01", st == "run" and tid in self.added, "C01.result-order", "on_trial_result for trial %d in state %s (added=%s)" % (tid, st, tid in self.added))
        self.v("C02", t == tid, "C02.wrong-trial", rid)
        self.v("C02", not late, "C02.late-report-delivered", "report %s was written after the stop/pause decision of its run, yet delivered (cur run %d)" % (rid, self.cur_run.get(tid, -1)))
        self.v("C02", run == self.cur_run[tid], "C02.stale-run-delivered", "report %s of run %d delivered while run %d is current" % (rid, run, self.cur_run[tid]))
        got = self.delivered.setdefault((tid, run), [])
        self.v("C02", seq == len(got), "C02.gap-or-duplicate", "trial %d run %d: delivered seqs %s, now %d" % (tid, run, got, seq))
        got.append(seq)
        self.deliveries.append((tid, run, seq, decision, dict(self.cfg.get(tid, {})), rid))
        self.sym.event("deliver t%d run%d #%d -> %s" % (tid, run, seq, decision))
        if decision == SchedulerDecision.PAUSE:
            self.state[tid] = "pausing"
            self.decided[(tid, run)] = decision
        elif decision == SchedulerDecision.STOP:
            self.state[tid] = "stopping"
            self.decided[(tid, run)] = decision

    def s_remove(self, tid):
        st = self.state.get(tid)
        self.v("C01", st in ("pausing", "stopping"), "C01.remove-order", "on_trial_remove(%d) in state %s" % (tid, st))
        self.state[tid] = "paused" if st == "pausing" else "stopped"
        self._end(tid, "remove")

    def s_complete(self, tid, backend):
        st = self.state.get(tid)
        self.v("C01", st == "run", "C01.complete-order", "on_trial_complete(%d) in state %s" % (tid, st))
        self.state[tid] = "completed"
        self._end(tid, "complete")
        run = self.cur_run[tid]
        # C02: a run that completed on its own had its whole sequence delivered
        n_rep = backend.reports_of_run(tid, run)
        got = self.delivered.get((tid, run), [])
        self.v("C02", len(got) == n_rep, "C02.completed-run-not-fully-delivered", "trial %d run %d reported %d results, %d delivered before on_trial_complete" % (tid, run, n_rep, len(got)))
        self.sym.goal("complete")

    def s_error(self, tid):
        st = self.state.get(tid)
        if st in ("paused", "stopped"):
            self.v("C01", False, "C01.error-after-remove", "scheduler is told on_trial_remove and then on_trial_error for the same run of trial %d "
                   "(failure became visible in the same poll as the result answered PAUSE/STOP)" % tid)
        self.v("C01", st in ("run", "paused", "stopped"), "C01.error-order", "on_trial_error(%d) in state %s" % (tid, st))
        if st == "run":
            self._end(tid, "error")
        self.state[tid] = "failed"
        self.sym.goal("failure")

    def _end(self, tid, kind):
        key = (tid, self.cur_run[tid])
        self.v("C01", key not in self.ended_notified, "C01.end-notified-twice", "trial %d run %d: %s after %s" % (tid, key[1], kind, self.ended_notified.get(key)))
        self.ended_notified[key] = kind


class NDS(TrialScheduler):
    """arbitrary scheduler obeying the API contract; every answer is a solver variable"""

    def __init__(self, sym, mon, T, decisions=("CONTINUE", "PAUSE", "STOP"), metric="m", max_pause=1):
        super().__init__({"x": 1})
        self.sym, self.mon, self.T = sym, mon, T
        self.max_pause = max_pause
        self.npause = {}
        self.inject_at = 0          # raise from the inject_at-th scheduler call (0 = never)
        self.new_config_on_resume = False
        self.paused = []
        self.n = 0
        self.decisions = decisions
        self.metric = metric

    def _maybe_raise(self):
        if self.inject_at and self.n == self.inject_at:
            self.sym.goal("exception-injected")
            raise RuntimeError("injected scheduler fault")

    def _suggest(self, trial_id):
        self.n += 1
        self._maybe_raise()
        if self.paused and self.sym.bool("resume_%d" % self.n):
            t = self.paused.pop(0)
            if self.new_config_on_resume and self.sym.bool("newcfg_%d" % self.n):
                return TrialSuggestion.resume_suggestion(t, config={"x": 100 + self.n})
            return TrialSuggestion.resume_suggestion(t)
        if trial_id >= self.T:
            return None
        return TrialSuggestion.start_suggestion({"x": 1})

    def on_trial_add(self, trial):
        self.mon.s_add(trial.trial_id)

    def on_trial_result(self, trial, result):
        self.n += 1
        self._maybe_raise()
        allowed = [x for x in self.decisions if x != "PAUSE" or self.npause.get(trial.trial_id, 0) < self.max_pause]
        d = allowed[self.sym.choice("dec_%d" % self.n, len(allowed))]
        self.mon.s_result(trial.trial_id, result, d)
        if d == SchedulerDecision.PAUSE:
            self.npause[trial.trial_id] = self.npause.get(trial.trial_id, 0) + 1
            self.paused.append(trial.trial_id)
        return d

    def on_trial_remove(self, trial):
        self.mon.s_remove(trial.trial_id)

    def on_trial_complete(self, trial, result):
        self.mon.s_complete(trial.trial_id, self.backend)

    def on_trial_error(self, trial):
        if trial.trial_id in self.paused:
            self.paused.remove(trial.trial_id)
        self.mon.s_error(trial.trial_id)

    def metric_names(self):
        return [self.metric]

    def metric_mode(self):
        return "min"


class Spy(TrialScheduler):
    """wraps a real scheduler; forwards everything, tells the monitor"""

    def __init__(self, inner, mon):
        self.inner, self.mon = inner, mon
        self.config_space = inner.config_space

    def suggest(self, trial_id):
        return self.inner.suggest(trial_id)

    def on_trial_add(self, trial):
        self.mon.s_add(trial.trial_id)
        return self.inner.on_trial_add(trial)

    def on_trial_result(self, trial, result):
        d = self.inner.on_trial_result(trial, result)
        self.mon.s_result(trial.trial_id, result, d)
        return d

    def on_trial_remove(self, trial):
        self.mon.s_remove(trial.trial_id)
        return self.inner.on_trial_remove(trial)

    def on_trial_complete(self, trial, result):
        self.mon.s_complete(trial.trial_id, self.backend)
        return self.inner.on_trial_complete(trial, result)

    def on_trial_error(self, trial):
        self.mon.s_error(trial.trial_id)
        return self.inner.on_trial_error(trial)

    def metric_names(self):
        return self.inner.metric_names()

    def metric_mode(self):
        return self.inner.metric_mode()

    def metadata(self):
        return {}

    def __getattr__(self, name):
        return getattr(self.__dict__["inner"], name)


def spy_on(inner, mon):
    """instance-level spy: wraps the notification methods of a REAL scheduler object so that the
    monitor sees every call, while the tuner still sees the real object (isinstance checks such as
    the checkpoint-removal mixin keep working)"""
    orig = dict(add=inner.on_trial_add, result=inner.on_trial_result, remove=inner.on_trial_remove,
                complete=inner.on_trial_complete, error=inner.on_trial_error)

    def on_trial_add(trial):
        mon.s_add(trial.trial_id)
        return orig["add"](trial)

    def on_trial_result(trial, result):
        d = orig["result"](trial, result)
        mon.s_result(trial.trial_id, result, d)
        return d

    def on_trial_remove(trial):
        mon.s_remove(trial.trial_id)
        return orig["remove"](trial)

    def on_trial_complete(trial, result):
        mon.s_complete(trial.trial_id, inner.backend)
        return orig["complete"](trial, result)

    def on_trial_error(trial):
        mon.s_error(trial.trial_id)
        return orig["error"](trial)

    inner.on_trial_add = on_trial_add
    inner.on_trial_result = on_trial_result
    inner.on_trial_remove = on_trial_remove
    inner.on_trial_complete = on_trial_complete
    inner.on_trial_error = on_trial_error
    return inner


class ScriptBackend(TrialBackend):
    def __init__(self, sym, mon, R=2, K=2, J=1, max_fail=0, Z=1, P=12, checkpointing=True,
                 delete_checkpoints=False, value_fn=None, metric="m", resource="r", R_of=None, stop_lag=0, eager=False):
        super().__init__(delete_checkpoints=delete_checkpoints)
        self.sym, self.mon = sym, mon
        self.eager = eager    # deterministic workers: K reports per poll, exit as soon as the final level is reported
        self.exit_in_busy = False   # a job that has written its last report may exit between the poll and busy_trial_ids()
        self.nfetch = 0             # number of polls (_all_trial_results calls) so far
        self.exit_fetch = {}        # tid -> value of nfetch when its worker exited by itself (completed / failed)
        self.R, self.K, self.J, self.Z, self.P = R, K, J, Z, P
        self.max_fail = max_fail
        self.checkpointing = checkpointing
        self.value_fn = value_fn
        self.metric, self.resource = metric, resource
        self.R_of = R_of
        self.wst = {}         # worker status per trial
        self.log = {}         # tid -> cumulative list of metric dicts (like std.out)
        self.run = {}         # tid -> current run number
        self.seq = {}         # (tid, run) -> number of reports of that run
        self.level = {}       # tid -> last level reported in the current run
        self.ckpt_level = {}  # tid -> level stored in its checkpoint
        self.has_ckpt = set()
        self.clock = 0
        self.polls = 0
        self.stut = 0
        self.nfail = 0
        self.exited = {}      # tid -> True once the worker process of the current run has ended
        self.tuner = None
        self.fault_at = 0             # the fault_at-th _schedule call raises (0 = never): a backend that fails to launch a job
        self.n_schedule = 0
        self.stop_lag = stop_lag      # a stopped job stays busy ("Stopping") for up to this many further polls
        self.stop_ticks = {}
        self.seen_failed = set()      # trials whose failure was shown to the loop by a poll

    # ---- helpers ----------------------------------------------------------------------------
    def in_progress(self):
        busy = (Status.in_progress, Status.stopping) if self.stop_lag else (Status.in_progress,)
        return [t for t, s in self.wst.items() if s in busy]

    def reports_of_run(self, tid, run):
        return self.seq.get((tid, run), 0)

    def final_level(self, tid):
        if self.R_of is not None:
            return self.R_of(self, tid)
        return self.R

    def _report(self, tid, late=False):
        run = self.run[tid]
        self.level[tid] += 1
        r = self.level[tid]
        n = self.seq.get((tid, run), 0)
        self.seq[(tid, run)] = n + 1
        self.clock += 1
        if self.value_fn is not None:
            v = self.value_fn(tid, run, r)
        else:
            v = float(10 * tid + r)
        m = {self.metric: v, self.resource: r, ST_WORKER_TIMESTAMP: self.clock,
             RID: "%d:%d:%d:%d" % (tid, run, n, 1 if late else 0)}
        self.log[tid].append(m)
        self.has_ckpt.add(tid)
        self.ckpt_level[tid] = r
        self.sym.event("worker t%d run%d reports level %d%s" % (tid, run, r, " (late)" if late else ""))

    def advance(self):
        """workers make progress between two polls"""
        self.polls += 1
        if self.polls > self.P:
            self.sym.goal("poll-bound-hit")
            self.sym.assume(False)
        progress = False
        for t in sorted(self.stop_ticks):
            if self.wst.get(t) == Status.stopping:
                self.stop_ticks[t] -= 1
                if self.stop_ticks[t] <= 0:
                    self.wst[t] = Status.stopped
                    self.sym.event("job of t%d has shut down" % t)
                progress = True
        for t in sorted(t_ for t_, s_ in self.wst.items() if s_ == Status.in_progress):
            if self.exited.get(t):
                continue
            Rt = self.final_level(t)
            room = Rt - self.level[t]
            kmax = min(self.K, room)
            if self.eager:
                k = kmax
            else:
                k = self.sym.choice("k_p%d_t%d" % (self.polls, t), kmax + 1) if kmax > 0 else 0
            for _ in range(k):
                self._report(t)
                progress = True
            ends = ["none"]
            if self.nfail < self.max_fail:
                ends.append("fail")
            if self.level[t] >= Rt:
                ends.append("exit")
            if self.eager and len(ends) == 2 and ends[1] == "exit":
                e = "exit"
            else:
                e = ends[self.sym.choice("end_p%d_t%d" % (self.polls, t), len(ends))]
            if e == "fail":
                self.wst[t] = Status.failed
                self.exited[t] = True
                self.exit_fetch[t] = self.nfetch
                self.nfail += 1
                progress = True
                self.sym.event("worker t%d fails" % t)
            elif e == "exit":
                self.wst[t] = Status.completed
                self.exited[t] = True
                self.exit_fetch[t] = self.nfetch
                progress = True
                self.sym.event("worker t%d exits (completed)" % t)
        if progress or not self.in_progress():
            self.stut = 0
        else:
            self.stut += 1
            if self.stut > self.Z:
                self.sym.assume(False)

    # ---- abstract hooks of TrialBackend ---------------------------------------------------------
    def start_trial(self, config, checkpoint_trial_id=None):
        tr = super().start_trial(config, checkpoint_trial_id)
        self.mon.cfg[tr.trial_id] = dict(config)
        self.mon.b_start(tr.trial_id, self)
        return tr

    def resume_trial(self, trial_id, new_config=None):
        self.mon.b_resume(trial_id, self)
        if new_config is not None:
            self.mon.cfg[trial_id] = dict(new_config)
            self.sym.goal("config-changed-on-resume")
        return super().resume_trial(trial_id, new_config)

    def _schedule(self, trial_id, config):
        self.n_schedule += 1
        if self.fault_at and self.n_schedule == self.fault_at:
            self.sym.goal("backend-fault-injected")
            self.sym.event("backend fails to launch the job of t%d" % trial_id)
            raise RuntimeError("injected backend fault")
        first = trial_id not in self.wst
        self.wst[trial_id] = Status.in_progress
        self.exited[trial_id] = False
        if first:
            self.run[trial_id] = 0
            self.log[trial_id] = []
            self.level[trial_id] = self.ckpt_level.get(trial_id, 0) if self.checkpointing else 0
        else:
            self.run[trial_id] += 1
            self.level[trial_id] = self.ckpt_level.get(trial_id, 0) if (self.checkpointing and trial_id in self.has_ckpt) else 0
        self.mon.b_scheduled(self)

    def _late(self, trial_id):
        """reports written between the deciding poll and the kill of the worker process"""
        if self.exited.get(trial_id) or self.wst.get(trial_id) != Status.in_progress:
            return
        room = self.final_level(trial_id) - self.level[trial_id]
        jmax = min(self.J, room)
        if jmax > 0:
            j = self.sym.choice("late_%d_%d" % (trial_id, self.run[trial_id]), jmax + 1)
            for _ in range(j):
                self._report(trial_id, late=True)
                self.sym.goal("late-report")

    def _pause_trial(self, trial_id, result):
        self.mon.b_pause(trial_id)
        self._late(trial_id)
        self.wst[trial_id] = Status.paused
        self.exited[trial_id] = True

    def _stop_trial(self, trial_id, result):
        self.mon.b_stop(trial_id)
        self._late(trial_id)
        # the job shuts down at once, or stays busy for stop_lag further polls
        lag = (0, self.stop_lag)[self.sym.choice("stoplag_%d" % trial_id, 2)] if (self.stop_lag and not self.mon.tuning_over) else 0
        if lag:
            self.wst[trial_id] = Status.stopping
            self.stop_ticks[trial_id] = lag
            self.sym.goal("stopping-job-still-busy")
        else:
            self.wst[trial_id] = Status.stopped
        self.exited[trial_id] = True

    def _resume_trial(self, trial_id):
        if self.seq.get((trial_id, self.run[trial_id]), 0) > 0 or self.run[trial_id] > 0:
            if getattr(self, "speculative_removal", False):
                # explicitly requested early removal: a resume may find no checkpoint (by design); remember it
                if trial_id not in self.has_ckpt:
                    self.resumed_without_ckpt = getattr(self, "resumed_without_ckpt", []) + [trial_id]
                    self.sym.goal("resumed-without-checkpoint")
                return
            self.mon.v("C20", trial_id in self.has_ckpt, "C20.resume-without-checkpoint",
                       "trial %d is resumed but its checkpoint was deleted" % trial_id)

    def _all_trial_results(self, trial_ids):
        self.nfetch += 1
        out = []
        for t in trial_ids:
            tr = self._trial_dict.get(t)
            if tr is None:
                if self.fault_at:
                    tr = self._trial_dict[t]      # like LocalBackend / SimulatorBackend: an unregistered id is a KeyError
                continue        # start_trial was interrupted (a monitor raised inside _schedule): keep the original exception
            if self.wst[t] == Status.failed and not self.mon.tuning_over:
                self.seen_failed.add(t)
            out.append(TrialResult(trial_id=t, config=tr.config, creation_time=tr.creation_time,
                                   status=self.wst[t], metrics=list(self.log[t])))
        return out

    def copy_checkpoint(self, src_trial_id, tgt_trial_id):
        self.mon.v("C20", src_trial_id in self.has_ckpt, "C20.copy-from-deleted-checkpoint",
                   "checkpoint of trial %d copied to %d but it does not exist (deleted earlier)" % (src_trial_id, tgt_trial_id))
        self.has_ckpt.add(tgt_trial_id)
        self.ckpt_level[tgt_trial_id] = self.ckpt_level.get(src_trial_id, 0)
        self.sym.event("copy checkpoint %d -> %d" % (src_trial_id, tgt_trial_id))
        self.sym.goal("checkpoint-copy")

    def delete_checkpoint(self, trial_id):
        if trial_id in self.has_ckpt:
            st = self.mon.state.get(trial_id)
            self.mon.v("C20", self.delete_checkpoints, "C20.deleted-although-disabled", "delete_checkpoint(%d) with delete_checkpoints=False" % trial_id)
            self.mon.v("C20", st not in ("run", "pausing") or self.mon.tuning_over, "C20.checkpoint-of-running-trial-deleted",
                       "checkpoint of trial %d deleted while it is %s" % (trial_id, st))
            if st == "paused" and not self.mon.tuning_over:
                self.sym.goal("paused-checkpoint-removed")
            if getattr(self, "speculative_removal", False) and not self.mon.tuning_over:
                self.mon.v("C20", st in ("paused", "stopping", "stopped", "completed", "failed"), "C20.early-removal-of-non-paused-trial",
                           "speculative removal deleted the checkpoint of trial %d which is %s" % (trial_id, st))
            self.sym.event("delete checkpoint t%d" % trial_id)
            self.has_ckpt.discard(trial_id)
            self.deleted_log = getattr(self, "deleted_log", [])
            self.deleted_log.append((trial_id, self.mon.state.get(trial_id), self.mon.tuning_over))

    def busy_trial_ids(self):
        if self.exit_in_busy:
            # real workers do not wait for the tuner: a job whose script has written its last report may end right between
            # the poll of this iteration and the question how many workers are busy
            for t in sorted(t_ for t_, s_ in self.wst.items() if s_ == Status.in_progress):
                if not self.exited.get(t) and self.level[t] >= self.final_level(t):
                    if self.sym.choice("bexit_f%d_t%d" % (self.nfetch, t), 2) == 1:
                        self.wst[t] = Status.completed
                        self.exited[t] = True
                        self.exit_fetch[t] = self.nfetch
                        self.sym.event("worker t%d exits (completed) between poll and busy_trial_ids" % t)
                        self.sym.goal("exit-between-poll-and-scheduling")
        return [(t, self.wst[t]) for t in self.in_progress()]

    def stdout(self, trial_id):
        return []

    def stderr(self, trial_id):
        return []

    def entrypoint_path(self):
        return Path("script.py")

    def set_entrypoint(self, entry_point):
        pass


class LoopCallback(TunerCallback):
    """drives worker progress at the start of every loop iteration; observes the loop; C12 monitor:
    the stopping criterion is recomputed from the monitor's own trace at the end of every iteration"""

    def __init__(self, backend, mon, crit=None, max_failures=None, wait=False):
        self.backend, self.mon = backend, mon
        self.loops = 0
        self.tuner = None
        self.ended = False
        self.crit = crit              # (kind, threshold) or None
        self.max_failures = max_failures
        self.wait = wait
        self.fetched = 0
        self.fetched_list = []
        self.stop_loop = None

    def on_tuning_start(self, tuner):
        self.tuner = tuner

    def on_loop_start(self):
        if self.stop_loop is not None and not self.wait:
            self.mon.v("C12", False, "C12.loop-continues-after-criterion",
                       "iteration %d starts although the stopping condition held at the end of iteration %d" % (self.loops, self.stop_loop))
        self.backend.advance()

    def on_fetch_status_results(self, trial_status_dict, new_results):
        self.fetched += len(new_results)
        self.fetched_list.extend(new_results)

    def on_trial_result(self, trial, status, result, decision):
        if decision == SchedulerDecision.STOP and status == Status.completed:
            self.mon.completed_view.add(trial.trial_id)

    def criterion_holds(self):
        m = self.mon
        st = list(m.state.values())
        fin = sum(1 for s in st if s in ("stopped", "completed", "failed"))
        nfailed = sum(1 for s in st if s == "failed")
        if self.max_failures is not None and nfailed > self.max_failures:
            return True
        if self.crit is None:
            return False
        kind, n = self.crit
        if kind == "started":
            return len(m.started_ids) > n
        if kind == "completed":
            return sum(1 for t, s in m.state.items() if s == "completed" or t in m.completed_view) > n
        if kind == "finished":
            return fin > n
        if kind == "evaluations":
            return self.fetched > n
        if kind == "min_metric":
            # a value below the threshold has been handed to the loop (NaN reports of diverged runs do not undo that)
            return any(r.get("m") == r.get("m") and r.get("m") < 0.05 for _, r in self.fetched_list)
        raise AssertionError(kind)

    def on_loop_end(self):
        self.loops += 1
        if self.stop_loop is None and self.criterion_holds():
            self.stop_loop = self.loops
            self.mon.stop_point_reached = self.loops
            self.mon.sym.goal("criterion-reached")

    def on_tuning_end(self):
        self.ended = True
        self.mon.tuning_over = True


def make_tuner(sym, sch, backend, callbacks, W, crit, **kw):
    from syne_tune import Tuner
    import syne_tune.tuning_status as _ts
    _ts.TuningStatus.__str__ = lambda self: ""       # stub nofs: no pandas table of symbolic values
    with NoTracing():
        pass
    sch.backend = backend
    args = dict(trial_backend=backend, scheduler=sch, stop_criterion=crit, n_workers=W, sleep_time=0,
                callbacks=callbacks, save_tuner=False, tuner_name="verif", suffix_tuner_name=False,
                results_update_interval=1e9, print_update_interval=1e9)
    args.update(kw)
    return Tuner(**args)
