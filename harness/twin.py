"""Twin execution: two scheduler objects A and B are driven in lock step with ONE symbolic
schedule (who acts next among <= W running trials, failures) and symbolic metric values; every
suggestion and decision of B must equal A's.  Used for
  C15 (B runs in mode max on negated metrics), C11 (B sees a different global-RNG stream),
  C16 (B is A saved and restored at a symbolic event index)."""
from crosshair.core import NoTracing

from harness.common import make, new_trial


def make_scheduler(kind, mode="min", seed=11, max_t=4, finite=False, **kw):
    """factory for the scheduler families covered by the twin harnesses"""
    from syne_tune.config_space import uniform, randint, choice
    cs = {"x": uniform(0, 1), "n": randint(1, 5)}
    if finite:
        cs = {"a": choice(["p", "q", "r"]), "n": randint(1, 3)}
    mf = dict(metric="m", mode=mode, resource_attr="r", random_seed=seed)
    if kind in ("stopping", "promotion", "rush_stopping", "rush_promotion"):
        from syne_tune.optimizer.schedulers.hyperband import HyperbandScheduler
        cs["epochs"] = max_t
        return make(HyperbandScheduler, cs, searcher=kw.pop("searcher", "random"), type=kind, max_resource_attr="epochs",
                    grace_period=1, reduction_factor=2, brackets=kw.pop("brackets", 1), **mf, **kw)
    if kind == "sync":
        from syne_tune.optimizer.schedulers.synchronous.hyperband import SynchronousHyperbandScheduler
        cs["epochs"] = max_t
        rungs = kw.pop("bracket_rungs", [[(2, 1), (1, 2)], [(1, 2)]])
        return make(SynchronousHyperbandScheduler, cs, bracket_rungs=rungs, max_resource_attr="epochs", **mf, **kw)
    if kind == "dehb":
        from syne_tune.optimizer.schedulers.synchronous.hyperband_impl import GeometricDifferentialEvolutionHyperbandScheduler
        cs["epochs"] = max_t
        return make(GeometricDifferentialEvolutionHyperbandScheduler, cs, max_resource_attr="epochs", grace_period=1, reduction_factor=2, **mf, **kw)
    if kind == "pbt":
        from syne_tune.optimizer.schedulers.pbt import PopulationBasedTraining
        if kw.pop("categorical", False):
            cs = dict(cs, act=choice(["relu", "tanh", "selu"]))
        return make(PopulationBasedTraining, cs, max_t=max_t, population_size=kw.pop("population_size", 2), perturbation_interval=1,
                    quantile_fraction=0.5, **mf, **kw)
    if kind == "median":
        from syne_tune.optimizer.schedulers.median_stopping_rule import MedianStoppingRule
        from syne_tune.optimizer.schedulers.fifo import FIFOScheduler
        inner = make(FIFOScheduler, cs, searcher="random", metric="m", mode=mode, random_seed=seed)
        return make(MedianStoppingRule, scheduler=inner, resource_attr="r", grace_time=1, grace_population=2, rank_cutoff=0.5)
    if kind in ("fifo-random", "fifo-grid", "fifo-bo", "fifo-rea"):
        from syne_tune.optimizer.schedulers.fifo import FIFOScheduler
        searcher = {"fifo-random": "random", "fifo-grid": "grid", "fifo-bo": "bayesopt", "fifo-rea": None}[kind]
        if kind == "fifo-rea":
            from syne_tune.optimizer.schedulers.searchers.regularized_evolution import RegularizedEvolution
            sr = make(RegularizedEvolution, cs, metric="m", mode=mode, random_seed=seed, population_size=2, sample_size=2)
            return make(FIFOScheduler, cs, searcher=sr, metric="m", mode=mode, random_seed=seed)
        so = dict(kw.pop("search_options", {}))
        if kind == "fifo-bo":
            so.setdefault("num_init_random", 10)
            so.setdefault("debug_log", False)
        if kind == "fifo-grid" and not finite:
            cs = {"a": choice(["p", "q", "r"]), "n": randint(1, 3)}
        return make(FIFOScheduler, cs, searcher=searcher, metric="m", mode=mode, random_seed=seed, search_options=so, **kw)
    raise AssertionError(kind)


def norm_config(cfg):
    if cfg is None:
        return None
    return {k: v for k, v in cfg.items() if k not in ("elapsed_time", "trial_id")}


class Twin:
    def __init__(self, sym, A, B, W=2, T=3, E=8, max_t=4, map_b=None, multi_fidelity=True, max_fail=0,
                 allow_complete=False, code="TWIN", between=None, snapshot=None, checkpointing=True, lo=-100, hi=100,
                 concrete_metrics=False):
        self.sym, self.A, self.B = sym, A, B
        self.W, self.T, self.E, self.max_t = W, T, E, max_t
        self.map_b = map_b or (lambda v: v)
        self.mf = multi_fidelity
        self.max_fail = max_fail
        self.allow_complete = allow_complete
        self.code = code
        self.between = between          # callback(i) run between events (e.g. perturb the global RNGs)
        self.ctx = lambda which: None   # called before every call into twin "a" / "b"
        self.snapshot = snapshot        # callable(A, trialsA) -> (B, trialsB), applied at a symbolic event index
        self.checkpointing = checkpointing
        self.lo, self.hi = lo, hi
        self.concrete_metrics = concrete_metrics
        self.trialsA, self.trialsB = {}, {}
        self.level, self.running, self.paused = {}, [], set()
        self.last = {}
        self.nfail = 0
        self.suggestions = []           # configs of all new trials (for duplicate checks)
        self.ndone = 0                  # trials that completed (searchers such as REA only learn from completed trials)

    def _suggest(self, sch, trials, nid):
        s = sch.suggest(nid)
        if s is None:
            return ("none",), None
        if s.spawn_new_trial_id:
            return ("start", norm_config(s.config), s.checkpoint_trial_id), s
        return ("resume", s.checkpoint_trial_id, norm_config(s.config)), s

    def run(self):
        sym = self.sym
        both = self.B is not None
        k_snap = None
        if self.snapshot is not None:
            k_snap = sym.choice("snapshot_at", self.E + 1)
        exhausted = False
        for i in range(self.E):
            if k_snap is not None and i == k_snap:
                self.B, self.trialsB = self.snapshot(self.A, self.trialsA)
                both = True
                sym.goal("snapshot")
                if self.running:
                    sym.goal("snapshot-while-running")
                if self.paused:
                    sym.goal("snapshot-while-paused")
            if self.between is not None:
                self.between(i)
            opts = [("report", t) for t in self.running]
            if self.nfail < self.max_fail:
                opts += [("fail", t) for t in self.running]
            if self.allow_complete:
                opts += [("complete", t) for t in self.running if t in self.last]
            if len(self.running) < self.W and not exhausted and not (not self.paused and len(self.trialsA) >= self.T):
                opts.append(("suggest", None))
            if not opts:
                break
            kind, tid = opts[sym.choice("c%d" % i, len(opts))]
            if kind == "suggest":
                nid = len(self.trialsA)
                self.ctx("a")
                oa, sa = self._suggest(self.A, self.trialsA, nid)
                if both:
                    self.ctx("b")
                    ob, sb = self._suggest(self.B, self.trialsB, nid)
                    sym.check(oa == ob, self.code + ".suggestion-differs", "event %d: A suggests %s, B suggests %s" % (i, oa, ob))
                if oa[0] == "none":
                    exhausted = True
                    sym.event("suggest -> None")
                    continue
                if self.ndone >= 2:
                    sym.goal("suggest-after-2-completions")
                if oa[0] == "start":
                    if nid >= self.T:
                        sym.event("suggest beyond T -> %s" % (oa[1],))
                        break
                    self.suggestions.append(oa[1])
                    for which, sch, trials, s in (("a", self.A, self.trialsA, sa),) + ((("b", self.B, self.trialsB, sb),) if both else ()):
                        self.ctx(which)
                        trials[nid] = new_trial(nid, s.config)
                        sch.on_trial_add(trials[nid])
                    self.level[nid] = 0
                    self.running.append(nid)
                    sym.event("start t%d %s" % (nid, oa[1]))
                else:
                    t = oa[1]
                    sym.check(t in self.paused and t not in self.running, self.code + ".resume-not-paused", "trial %s" % t)
                    self.paused.discard(t)
                    for trials, s in ((self.trialsA, sa),) + (((self.trialsB, sb),) if both else ()):
                        if s.config is not None:
                            trials[t].config = s.config
                    if not self.checkpointing:
                        self.level[t] = 0
                    self.running.append(t)
                    sym.event("resume t%d" % t)
                    sym.goal("resume")
            elif kind == "report":
                self.level[tid] += 1
                r = self.level[tid]
                if self.concrete_metrics:
                    v = float((tid * 7 + r * 3) % 11) + 0.01 * tid      # fixed table in general position
                else:
                    v = sym.real("m_%d_%d_%d" % (tid, r, i), self.lo, self.hi)
                ra = {"m": v, "r": r} if self.mf else {"m": v}
                self.ctx("a")
                da = self.A.on_trial_result(self.trialsA[tid], dict(ra))
                if both:
                    rb = dict(ra)
                    rb["m"] = self.map_b(v)
                    self.ctx("b")
                    db = self.B.on_trial_result(self.trialsB[tid], rb)
                    sym.check(da == db, self.code + ".decision-differs", "event %d trial %d level %d: A %s, B %s" % (i, tid, r, da, db))
                self.last[tid] = (ra, r)
                sym.event("t%d r=%d -> %s" % (tid, r, da))
                if da in ("STOP", "PAUSE"):
                    self.A.on_trial_remove(self.trialsA[tid])
                    if both:
                        self.B.on_trial_remove(self.trialsB[tid])
                    self.running.remove(tid)
                    if da == "PAUSE":
                        self.paused.add(tid)
                        sym.goal("pause")
                    else:
                        sym.goal("stop")
                elif self.max_t is not None and r >= self.max_t:
                    # the script ends by itself at max_t
                    self.A.on_trial_complete(self.trialsA[tid], dict(ra))
                    if both:
                        rb = dict(ra)
                        rb["m"] = self.map_b(v)
                        self.B.on_trial_complete(self.trialsB[tid], rb)
                    self.running.remove(tid)
                    self.ndone += 1
            elif kind == "fail":
                self.A.on_trial_error(self.trialsA[tid])
                if both:
                    self.B.on_trial_error(self.trialsB[tid])
                self.running.remove(tid)
                self.nfail += 1
                sym.goal("failure")
                sym.event("fail t%d" % tid)
            elif kind == "complete":
                ra, r = self.last[tid]
                self.A.on_trial_complete(self.trialsA[tid], dict(ra))
                if both:
                    rb = dict(ra)
                    rb["m"] = self.map_b(ra["m"])
                    self.B.on_trial_complete(self.trialsB[tid], rb)
                self.running.remove(tid)
                self.ndone += 1
                sym.goal("complete")
                sym.event("complete t%d" % tid)
        sym.goal("end")
